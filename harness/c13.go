package main

import (
	"encoding/json"
	"errors"
	"fmt"
	"path/filepath"
	"strings"

	"github.com/XiXi-2024/xixi-kv/verifrt/iorec"
)

// C13 — sync policy is honoured. The I/O recorder keeps, per data file of the data directory, the
// bytes written since the last fsync/msync of that file, tagged with the API call that wrote them.

type syncTracker struct {
	dir      string
	cur      string           // kind of the public call in progress
	unsynced map[string][]seg // path -> unsynced segments
	touched  map[string]bool  // files written by the call in progress
	viol     string           // first violation detected inside a call (rotation clause)
	syncs    int
}

type seg struct {
	kind string
	n    int64
}

func (t *syncTracker) isData(p string) bool {
	return filepath.Dir(p) == t.dir && strings.HasSuffix(p, ".data")
}

func (t *syncTracker) after(ev *iorec.Event) {
	if ev.Err != "" || !t.isData(ev.Path) {
		return
	}
	switch ev.Op {
	case "write", "writeat", "rw.write":
		t.unsynced[ev.Path] = append(t.unsynced[ev.Path], seg{t.cur, ev.N})
		t.touched[ev.Path] = true
	case "sync", "msync":
		delete(t.unsynced, ev.Path)
		t.syncs++
	case "create":
		// rotation: at the create event of file id+1, file id is covered
		var id int
		fmt.Sscanf(filepath.Base(ev.Path), "%d.data", &id)
		if id > 0 {
			prev := filepath.Join(t.dir, fmt.Sprintf("%09d.data", id-1))
			if n := t.bytes(prev, ""); n > 0 && t.viol == "" {
				t.viol = fmt.Sprintf("file %s was created while %d bytes of %s were not flushed", filepath.Base(ev.Path), n, filepath.Base(prev))
			}
		}
	case "remove":
		delete(t.unsynced, ev.Path)
	}
}

// bytes returns the unsynced bytes of path written by calls of the given kinds ("" = any).
func (t *syncTracker) bytes(path string, kinds string) int64 {
	var n int64
	for _, s := range t.unsynced[path] {
		if kinds == "" || strings.Contains(kinds, s.kind) {
			n += s.n
		}
	}
	return n
}

func (t *syncTracker) total(kinds string) int64 {
	var n int64
	for p := range t.unsynced {
		n += t.bytes(p, kinds)
	}
	return n
}

func c13Alphabet(c Cfg) []Op {
	a := []Op{
		{K: "put", Key: "a", VC: "S"},
		{K: "put", Key: "b", VC: "S"},
		{K: "del", Key: "a"},
		{K: "put", Key: "a", VC: "L", Dev: true},
		{K: "put", Key: "b", VC: "X", Dev: true},
		{K: "sync", Dev: true},
		{K: "syncfail", Dev: true}, // Sync() whose flush the device refuses
		{K: "restart", Dev: true},  // Close (must flush) + Open
		{K: "merge", Dev: true},
	}
	for _, body := range [][]Op{
		{{K: "put", Key: "a", VC: "S"}},
		{{K: "put", Key: "a", VC: "S"}, {K: "del", Key: "b"}},
		{{K: "put", Key: "a", VC: "L"}, {K: "put", Key: "b", VC: "L"}, {K: "put", Key: "a", VC: "S"}},
	} {
		a = append(a, Op{K: "batch", Sub: body, Dev: true})         // BatchOptions.Sync = false
		a = append(a, Op{K: "batch", Sub: body, Arg: 1, Dev: true}) // BatchOptions.Sync = true
	}
	return a
}

func runC13(cfg Cfg, keys []string, ops []Op, res *TaskResult) *Violation {
	beginExecution()
	w := NewWorld(cfg, keys)
	tr := &syncTracker{dir: w.Dir, unsynced: map[string][]seg{}, touched: map[string]bool{}}
	iorec.After = tr.after
	defer func() { iorec.After = nil }()
	defer w.Destroy()
	res.Execs++
	tr.cur = "open"
	if err := w.Open(); err != nil {
		return viol("C13", "open-fresh", "open-fresh", panicDetail(err))
	}
	nontriv := false
	for i, op := range ops {
		tr.cur = op.K
		if op.K == "batch" && op.Arg == 1 {
			tr.cur = "syncbatch"
		}
		tr.touched = map[string]bool{}
		tr.viol = ""
		var closeLeft int64
		if op.K == "restart" {
			// judge Close separately from the following Open
			tr.cur = "close"
			if err := w.Close(); err != nil {
				return nil
			}
			closeLeft = tr.total("")
			res.Evals++
			if closeLeft > 0 {
				return viol("C13", "close-unflushed", "close-unflushed:"+ioName(cfg), fmt.Sprintf("step %d %s: after Close() returned, %d written bytes were never flushed (%s)", i, op, closeLeft, tr.describe()))
			}
			tr.cur = "open"
			if err := w.Open(); err != nil {
				return nil
			}
			res.Transitions++
			continue
		}
		if op.K == "syncfail" {
			// Sync() whose flush the device refuses: it must say so, nothing counts as flushed, and the strategy's
			// bookkeeping must not forget the bytes that are still unflushed
			refused := 0
			iorec.Before = func(o, path, path2 string, n int64) error {
				if o == "sync" || o == "msync" {
					refused++
					return errors.New("injected: the device refuses this flush")
				}
				return nil
			}
			err := w.guard(func() error { return w.DB.Sync() })
			iorec.Before = nil
			res.Transitions++
			if w.Dead {
				return nil
			}
			if refused > 0 {
				res.count("refused_flushes", 1)
				if err == nil {
					return viol("C13", "sync-error-swallowed", "sync-error-swallowed:"+ioName(cfg), fmt.Sprintf("step %d %s (strategy %s): the device refused the flush but Sync() returned nil; unflushed: %s", i, op, cfg, tr.describe()))
				}
			}
			continue
		}
		ar := w.Apply(op)
		res.Transitions++
		if ar.Err != nil || w.Dead {
			return nil // failures are judged by C01/C17
		}
		res.Evals++
		fail := func(clause, msg string) *Violation {
			return viol("C13", clause, clause+":"+ioName(cfg), fmt.Sprintf("step %d %s (strategy %s): %s; unflushed: %s", i, op, cfg, msg, tr.describe()))
		}
		if tr.viol != "" {
			return fail("rotation-unflushed", tr.viol)
		}
		switch {
		case (op.K == "put" || op.K == "del") && cfg.Sync == 1:
			for p := range tr.touched {
				if n := tr.bytes(p, ""); n > 0 {
					return fail("always-unflushed", fmt.Sprintf("SyncStrategy Always: %s returned with %d unflushed bytes in %s", op.K, n, filepath.Base(p)))
				}
			}
		case op.K == "sync":
			if n := tr.total(""); n > 0 {
				return fail("sync-unflushed", fmt.Sprintf("Sync() returned with %d unflushed bytes", n))
			}
		case op.K == "batch" && op.Arg == 1:
			for p := range tr.touched {
				if n := tr.bytes(p, ""); n > 0 {
					return fail("syncbatch-unflushed", fmt.Sprintf("Commit of a Sync batch returned with %d unflushed bytes in %s", n, filepath.Base(p)))
				}
			}
		}
		if cfg.Sync == 2 {
			if n := tr.total("put del"); n >= int64(cfg.BPS) {
				return fail("threshold-exceeded", fmt.Sprintf("SyncStrategy Threshold(%d): %d bytes appended by acknowledged Put/Delete are unflushed", cfg.BPS, n))
			}
		}
		if len(tr.unsynced) > 0 {
			nontriv = true
		}
	}
	res.States = append(res.States, hash64(fmt.Sprint(tr.describe(), len(w.Model), tr.syncs)))
	if nontriv && tr.syncs > 0 {
		res.Nontrivial++
	}
	return nil
}

func ioName(c Cfg) string {
	if c.IO == 1 {
		return "mmap"
	}
	return "std"
}

func (t *syncTracker) describe() string {
	var parts []string
	for _, p := range sortedKeys(t.unsynced) {
		var b strings.Builder
		fmt.Fprintf(&b, "%s:", filepath.Base(p))
		for _, s := range t.unsynced[p] {
			fmt.Fprintf(&b, " %s+%d", s.kind, s.n)
		}
		parts = append(parts, b.String())
	}
	if len(parts) == 0 {
		return "(nothing)"
	}
	return strings.Join(parts, "; ")
}

func c13Cfgs() []Cfg {
	var out []Cfg
	for _, io := range []byte{0, 1} {
		for _, sy := range []struct {
			s   byte
			bps uint
		}{{0, 64}, {1, 64}, {2, 1}, {2, 40}, {2, 64}, {2, 135}, {2, 1000}} { // 135: not below DataFileSize, yet below one oversized record
			c := defaultCfg
			c.IO, c.Sync, c.BPS = io, sy.s, sy.bps
			out = append(out, c)
		}
	}
	// a roomy file: batches and Puts share one file without rotating (a rotation flushes and hides unflushed bytes)
	for _, sy := range []struct {
		s   byte
		bps uint
	}{{1, 64}, {2, 40}, {2, 64}} {
		c := defaultCfg
		c.FileSize, c.Sync, c.BPS = 1000, sy.s, sy.bps
		out = append(out, c)
	}
	return out
}

func init() {
	register(&Check{
		Prop:   "C13",
		Engine: "seq",
		Rule:   "operation sequences (Put/Delete/oversized/batches with and without Sync/Sync()/Close+Open/Merge) under every SyncStrategy x BytesPerSync{1,40,64,1000} x I/O back-end; at the return of every public call the per-file unflushed-byte accounting derived from the intercepted write/fsync/msync events is judged. non-trivial = the sequence had unflushed bytes at some return and at least one flush",
		Assumptions: []string{
			"'flushed' is judged at the lowest intercepted level: (*os.File).Sync for Standard I/O, mmap Flush (msync) for MMap; MMap writes are seen through a recording wrapper of (*MMap).Write",
			"only *.data files of the data directory are judged (merge output durability belongs to C07)",
			"Threshold counts bytes appended by Put/Delete only, as the statement says (batch bytes are governed by BatchOptions.Sync)",
		},
		Tasks: func(tier string) []Task {
			d, b := 5, 2
			if tier == "thorough" {
				d, b = 6, 3
			}
			// block family: a record that ends exactly on (or 3 bytes before) a 32 KiB block boundary leaves the file with an
			// "empty" last block: every flush obligation still holds for it
			blockAlpha := func(c Cfg) []Op {
				return []Op{
					{K: "put", Key: "a", VC: "S"},
					{K: "put", Key: "b", VC: "B", Arg: 0},
					{K: "put", Key: "b", VC: "B", Arg: 3},
					{K: "del", Key: "a"},
					{K: "sync"},
					{K: "restart"},
					{K: "batch", Arg: 1, Sub: []Op{{K: "put", Key: "b", VC: "B", Arg: 8}}},
					{K: "batch", Arg: 1, Sub: []Op{{K: "put", Key: "a", VC: "S"}, {K: "put", Key: "b", VC: "S"}}},
				}
			}
			var bcfgs []Cfg
			for _, io := range []byte{0, 1} {
				for _, sy := range []struct {
					s   byte
					bps uint
				}{{0, 64}, {1, 64}, {2, 64}} {
					c := blockCfg()
					c.IO, c.Sync, c.BPS = io, sy.s, sy.bps
					bcfgs = append(bcfgs, c)
				}
			}
			bd := 3
			if tier == "thorough" {
				bd = 4
			}
			return seqTasks("C13", []seqLevel{{Name: fmt.Sprintf("d%db%d", d, b), Cfgs: c13Cfgs(), Keys: keysAB, Alpha: c13Alphabet, Depth: d, Dev: b, Run: runC13},
				{Name: fmt.Sprintf("block-boundary-d%d", bd), Cfgs: bcfgs, Keys: keysAB, Alpha: blockAlpha, Depth: bd, Dev: bd, Run: runC13}})
		},
		Bounds: func(tier string) map[string]any {
			d, b := 5, 2
			if tier == "thorough" {
				d, b = 6, 3
			}
			return map[string]any{"depth": d, "deviation_bound": b, "configs": len(c13Cfgs()), "sequences_per_config": countSeq(c13Alphabet(defaultCfg), d, b)}
		},
		Replay: func(raw json.RawMessage) { seqReplayMain(raw, runC13) },
	})
}

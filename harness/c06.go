package main

import (
	"encoding/json"
	"errors"
	"fmt"
	"io"
	"os"
	"path/filepath"
	"sort"
	"strings"
	"syscall"

	"github.com/XiXi-2024/xixi-kv/datafile"
	"github.com/XiXi-2024/xixi-kv/verifrt/iorec"
)

// C06 — merge preserves every value and actually reclaims the garbage (sequential part + fault injection).
// C18 — hint files faithfully index the merged data files.

func c06Alphabet(c Cfg) []Op {
	a := []Op{
		{K: "put", Key: "a", VC: "S"},
		{K: "put", Key: "b", VC: "S"},
		{K: "del", Key: "a"},
		{K: "merge"},
		{K: "merge", Arg: 1},
		{K: "restart"},
		{K: "put", Key: "a", VC: "L", Dev: true},
		{K: "put", Key: "b", VC: "L", Dev: true},
		{K: "put", Key: "b", VC: "X", Dev: true},
		{K: "del", Key: "b", Dev: true},
		{K: "batch", Sub: []Op{{K: "put", Key: "a", VC: "S"}, {K: "put", Key: "b", VC: "S"}}, Dev: true},
		{K: "batch", Sub: []Op{{K: "put", Key: "a", VC: "L"}, {K: "put", Key: "b", VC: "L"}, {K: "del", Key: "a"}}, Dev: true},
		{K: "restartfs", Arg: 64, Dev: true},  // reopen with a smaller file-size limit: the next merge output needs MORE files than its input
		{K: "restartfs", Arg: 400, Dev: true}, // ... with a larger one: fewer
	}
	return a
}

// dirSpellingAlphabet: the same directory is opened under both spellings of its path (with / without a trailing
// separator); the merge directory is a sibling of the data directory under either.
func dirSpellingAlphabet(c Cfg) []Op {
	return []Op{
		{K: "put", Key: "a", VC: "S"},
		{K: "put", Key: "b", VC: "L"},
		{K: "del", Key: "a"},
		{K: "merge", Arg: 1},
		{K: "restart"},
		{K: "restartslash"},                    // toggles between the clean spelling and a trailing separator
		{K: "restartslash", Arg: 2, Dev: true}, // "db/."
		{K: "restartslash", Arg: 3, Dev: true}, // "./db" spelled in the middle of the path
		{K: "restartslash", Arg: 4, Dev: true}, // through a symbolic link
	}
}

// manyFilesAlphabet: 140 data files in one step (every record alone exceeds DataFileSize 64), so file ids and the
// merge-finished marker reach values above 127 / 128 data files take part in one merge.
func manyFilesAlphabet(c Cfg) []Op {
	return []Op{
		{K: "fill", VC: "X", Arg: 140},
		{K: "put", Key: "a", VC: "S"},
		{K: "del", Key: "b"},
		{K: "merge", Arg: 1},
		{K: "restart"},
	}
}

func manyFilesCfg() Cfg {
	c := defaultCfg
	c.FileSize = 64
	return c
}

// mergeInfo is what the harness remembers about the last successful Merge.
type mergeInfo struct {
	live     map[string]string // mapping at merge time
	firstNon uint32            // first file id that did not take part
	inFiles  int               // number of input files
	outFiles int               // number of rewritten files
}

func countDataFiles(dir string) int {
	ents, _ := os.ReadDir(dir)
	n := 0
	for _, e := range ents {
		if strings.HasSuffix(e.Name(), ".data") {
			n++
		}
	}
	return n
}

// afterMerge records the artefacts of a Merge that returned nil.
func afterMerge(w *World) *mergeInfo {
	id, _, older := w.DB.VerifFiles()
	return &mergeInfo{live: copyModel(w.Model), firstNon: id, inFiles: len(older), outFiles: countDataFiles(w.Dir + "-merge")}
}

// checkAdopted judges the directory after the restart that adopted mi. post = mapping now.
func checkAdopted(w *World, mi *mergeInfo) (clause, detail string) {
	if _, err := os.Stat(w.Dir + "-merge"); err == nil {
		return "merge-dir-remains", "after the adopting restart the temporary merge directory still exists"
	}
	if w.Cfg.IO == 1 {
		return "", "" // an open MMap database has 512 MiB files: the file-level oracle runs on Standard I/O
	}
	files, err := scanDataFiles(w.Dir)
	if err != nil {
		return "", ""
	}
	seen := map[string]int{}
	for _, f := range files {
		if f.ScanErr != "" {
			return "scan-error", fmt.Sprintf("package reader failed on file %d after adoption: %s", f.Fid, f.ScanErr)
		}
		if f.Fid >= mi.firstNon {
			continue
		}
		for _, r := range f.Recs {
			if r.Type != datafile.LogRecordNormal {
				return "garbage-not-reclaimed", fmt.Sprintf("merged file %d holds a record of type %d (key %q): tombstones / sealing records must be gone", f.Fid, r.Type, r.Key)
			}
			want, ok := mi.live[r.Key]
			if !ok {
				return "garbage-not-reclaimed", fmt.Sprintf("merged file %d holds a record for key %q that was not live at merge time", f.Fid, r.Key)
			}
			if r.Value != want {
				return "garbage-not-reclaimed", fmt.Sprintf("merged file %d holds a stale value for key %q", f.Fid, r.Key)
			}
			seen[r.Key]++
			if seen[r.Key] > 1 {
				return "garbage-not-reclaimed", fmt.Sprintf("key %q occurs %d times in the merged files", r.Key, seen[r.Key])
			}
		}
	}
	for k := range mi.live {
		if seen[k] == 0 {
			return "live-record-missing", fmt.Sprintf("key %q was live at merge time but no merged file holds it", k)
		}
	}
	return "", ""
}

func runC06(cfg Cfg, keys []string, ops []Op, res *TaskResult) *Violation {
	var pending *mergeInfo // merge finished, not yet adopted
	merges := 0
	shapes := map[string]bool{}
	v := RunTrace(cfg, keys, ops, res, func(w *World, i int, op Op, ar ApplyResult) *Violation {
		if errClass(ar.Err) == "panic" {
			return viol("C06", "panic", "panic:"+op.K, fmt.Sprintf("step %d %s: %s", i, op, panicDetail(ar.Err)))
		}
		if ar.Clause != "" {
			return viol("C06", ar.Clause, ar.Clause+":"+errClass(ar.Err), fmt.Sprintf("step %d %s: %s", i, op, ar.Detail))
		}
		res.Evals++
		// Merge never changes what any key maps to (live, after adoption, after later restarts)
		if c, d := w.CheckReads(); c != "" {
			return viol("C06", "mapping:"+c, "mapping:"+c+":after-"+op.K, fmt.Sprintf("step %d %s: %s\nmodel=%s", i, op, d, modelString(w.Model)))
		}
		switch op.K {
		case "merge":
			if ar.Err != nil {
				// a Merge that reports an error has already removed an earlier finished, not yet adopted merge
				// directory: nothing is pending any more (the mapping oracle above still applies)
				pending = nil
				res.count("merge_errors:"+errClass(ar.Err), 1)
			}
			if ar.Err == nil {
				pending = afterMerge(w)
				merges++
				switch {
				case pending.outFiles < pending.inFiles:
					shapes["fewer"] = true
				case pending.outFiles == pending.inFiles:
					shapes["equal"] = true
				default:
					shapes["more"] = true
				}
			}
		case "restart", "restartfs", "restartslash":
			if pending != nil {
				if c, d := checkAdopted(w, pending); c != "" {
					return viol("C06", c, c, fmt.Sprintf("step %d %s (adopting the merge of %d input files into %d): %s\n%s", i, op, pending.inFiles, pending.outFiles, d, listDirs(w)))
				}
				pending = nil
			}
		}
		if i == len(ops)-1 {
			res.States = append(res.States, w.StateHash())
		}
		return nil
	})
	for s := range shapes {
		res.count("merge_output_"+s, 1)
	}
	if merges > 0 {
		res.Nontrivial++
	}
	return v
}

// ---- fault injection: each I/O call of Merge fails once -------------------------------------------

// runC06Fault: ops (no merge inside) then Merge with the k-th I/O call failing, for every k.
func runC06Fault(cfg Cfg, keys []string, ops []Op, res *TaskResult) *Violation {
	for _, perm := range []int{0, 1} {
		// count the I/O calls of an undisturbed Merge
		n := -1
		for k := -1; n < 0 || k < n; k++ {
			beginExecution()
			w := NewWorld(cfg, keys)
			res.Execs++
			if err := w.Open(); err != nil {
				w.Destroy()
				return nil
			}
			ok := true
			for _, op := range ops {
				if ar := w.Apply(op); ar.Err != nil || w.Dead {
					ok = false
					break
				}
				res.Transitions++
			}
			if !ok {
				w.Destroy()
				return nil
			}
			calls := 0
			injectedAt := ""
			iorec.Before = func(op, path, path2 string, nn int64) error {
				calls++
				if calls-1 == k {
					injectedAt = fmt.Sprintf("call #%d %s %s", k, op, filepath.Base(path))
					return &os.PathError{Op: op, Path: path, Err: syscall.EIO}
				}
				return nil
			}
			ar := w.Apply(Op{K: "merge", Arg: perm})
			iorec.Before = nil
			res.Transitions++
			if k < 0 {
				n = calls
				w.Destroy()
				if ar.Err != nil {
					return nil
				}
				continue
			}
			fail := func(clause, detail string) *Violation {
				w.Destroy()
				return &Violation{Prop: "C06", Clause: clause, Sig: clause, Detail: fmt.Sprintf("cfg=%s trace=[%s; merge(%d) with %s failing (EIO)]\n%s", cfg, traceString(ops), perm, injectedAt, detail),
					Replay: mustJSON(seqReplay{Engine: "fault", Prop: "C06", Cfg: cfg, Keys: keys, Ops: ops, Trace: traceString(ops), Extra: map[string]int{"fault_at": k, "perm": perm}})}
			}
			if errClass(ar.Err) == "panic" {
				return fail("fault-panic", "Merge panicked: "+panicDetail(ar.Err))
			}
			res.Evals++
			if c, d := w.CheckReads(); c != "" {
				return fail("fault-mapping:"+c, fmt.Sprintf("Merge returned %s; afterwards: %s", errClass(ar.Err), d))
			}
			var mi *mergeInfo
			if ar.Err == nil {
				mi = afterMerge(w)
			}
			ar2 := w.Apply(Op{K: "restart"})
			if ar2.Clause != "" {
				return fail("fault-restart:"+ar2.Clause, fmt.Sprintf("Merge returned %s; restart: %s", errClass(ar.Err), ar2.Detail))
			}
			if c, d := w.CheckReads(); c != "" {
				return fail("fault-mapping-after-restart:"+c, fmt.Sprintf("Merge returned %s; after restart: %s", errClass(ar.Err), d))
			}
			if mi != nil {
				// Merge claimed success although an I/O call failed: the reclaim clause must then hold
				if c, d := checkAdopted(w, mi); c != "" {
					return fail("fault-swallowed:"+c, fmt.Sprintf("Merge returned nil although %s failed, and after the restart: %s\n%s", injectedAt, d, listDirs(w)))
				}
			}
			res.count("faults_injected", 1)
			w.Destroy()
		}
	}
	res.Nontrivial++
	return nil
}

// ---- C18 -------------------------------------------------------------------------------------------

// (the last two end in zero bytes - little-endian counters, fixed-width integers: nothing may treat them as padding)
var c18Keys = []string{"a", "\x80\x01", "\xff\xff\xff\xff", string(patternBytes(300, 11)), "k\x00\x00", "\x00"}

func c18Alphabet(c Cfg) []Op {
	var a []Op
	for i, k := range c18Keys {
		a = append(a, Op{K: "put", Key: k, VC: "S", Dev: i >= 2})
	}
	a = append(a,
		Op{K: "put", Key: c18Keys[1], VC: "L", Dev: true},
		Op{K: "del", Key: c18Keys[1]},
		Op{K: "del", Key: "a", Dev: true},
		Op{K: "batch", Sub: []Op{{K: "put", Key: c18Keys[2], VC: "S"}, {K: "put", Key: "a", VC: "S"}}, Dev: true},
		Op{K: "restart", Dev: true},
		Op{K: "merge", Dev: true},              // an earlier merge (adopted by a later restart): its hint file must be superseded by the next one
		Op{K: "restartfs", Arg: 64, Dev: true}, // reopen with a smaller limit: the merge output may need more files than its input
	)
	return a
}

// checkHint inspects the artefacts of a successful Merge (merge dir) and runs the differential open.
func checkHint(w *World, res *TaskResult) (clause, detail string) {
	mdir := w.Dir + "-merge"
	mfiles, err := scanDataFiles(mdir)
	if err != nil {
		return "", ""
	}
	type loc struct {
		fid, blk, off uint32
	}
	recAt := map[loc]Rec{}
	var recKeys []string
	for _, f := range mfiles {
		if f.ScanErr != "" {
			return "merged-scan-error", fmt.Sprintf("package reader failed on merged file %d: %s", f.Fid, f.ScanErr)
		}
		for _, r := range f.Recs {
			recAt[loc{r.Pos.Fid, r.Pos.BlockID, r.Pos.Offset}] = r
			recKeys = append(recKeys, r.Key)
		}
	}
	// (i) decode the hint file with the package's reader
	hf, err := datafile.OpenFile(mdir, 0, datafile.HintFileSuffix, 0)
	if err != nil {
		return "hint-open", err.Error()
	}
	var hintKeys []string
	func() {
		defer hf.Close()
		defer func() {
			if r := recover(); r != nil {
				clause, detail = "hint-decode-panic", fmt.Sprint(r)
			}
		}()
		rd := hf.NewReader()
		for {
			k, p, err := rd.NextHintRecord()
			if err != nil {
				if err != io.EOF {
					clause, detail = "hint-decode", err.Error()
				}
				return
			}
			res.Evals++
			r, ok := recAt[loc{p.Fid, p.BlockID, p.Offset}]
			if !ok {
				clause, detail = "hint-dangling", fmt.Sprintf("hint entry (%q, %+v) names a location where the merged files hold no record", truncate(string(k), 16), *p)
				return
			}
			if r.Key != string(k) || r.Type != datafile.LogRecordNormal {
				clause, detail = "hint-wrong-key", fmt.Sprintf("hint entry for key %q points at a record with key %q type %d", truncate(string(k), 16), truncate(r.Key, 16), r.Type)
				return
			}
			if r.Pos.Size != p.Size {
				clause, detail = "hint-wrong-size", fmt.Sprintf("hint entry for key %q has size %d, the record occupies %d bytes", truncate(string(k), 16), p.Size, r.Pos.Size)
				return
			}
			hintKeys = append(hintKeys, string(k))
		}
	}()
	if clause != "" {
		return
	}
	// (ii) hinted keys = keys stored in the merged files = keys live at merge time
	sort.Strings(hintKeys)
	sort.Strings(recKeys)
	live := sortedKeys(w.Model)
	if !equalStrings(hintKeys, recKeys) {
		return "hint-keys-differ", fmt.Sprintf("hinted keys %q, keys stored in the merged files %q", shortKeys(hintKeys), shortKeys(recKeys))
	}
	if !equalStrings(hintKeys, live) {
		return "hint-keys-vs-live", fmt.Sprintf("hinted keys %q, keys live at merge time %q", shortKeys(hintKeys), shortKeys(live))
	}
	// (iii) differential open on copies: hint path (the adopting Open) vs scan path (the hint file removed, every
	// file read record by record) - under the writer's configuration and under a much smaller and a much larger
	// DataFileSize (positions in the hint are those of files written under ANOTHER limit then)
	if w.Cfg.IO == 1 {
		// an open MMap source has 512 MiB files whose logical end is not recoverable from outside:
		// the differential open is done for Standard I/O (C14 compares the back-ends)
		return "", ""
	}
	readers := []Cfg{w.Cfg}
	for _, fs := range []int64{16, 1 << 20} {
		rc := w.Cfg
		rc.FileSize = fs
		readers = append(readers, rc)
	}
	for _, rc := range readers {
		cp := NewWorld(rc, w.Keys)
		c, d := func() (string, string) {
			defer cp.Destroy()
			// the source is still open: its files are complete (Standard I/O appends)
			if err := copyDirGo(w.Dir, cp.Dir); err != nil {
				return "", ""
			}
			os.Remove(filepath.Join(cp.Dir, ".lock"))
			if err := copyDirGo(mdir, cp.Dir+"-merge"); err != nil {
				return "", ""
			}
			if err := cp.Open(); err != nil {
				return "hint-open-fails", "Open adopting the merge (hint path): " + panicDetail(err)
			}
			d1, ix1 := cp.DumpDB(), indexString(cp)
			if err := cp.Close(); err != nil {
				return "", ""
			}
			hints, _ := filepath.Glob(filepath.Join(cp.Dir, "*"+datafile.HintFileSuffix))
			for _, h := range hints {
				os.Remove(h)
			}
			if err := cp.Open(); err != nil {
				return "scan-open-fails", "second Open (hint file removed: scan path): " + panicDetail(err)
			}
			d2, ix2 := cp.DumpDB(), indexString(cp)
			cp.Close()
			res.Evals++
			if !dumpEqual(d1, d2) {
				return "hint-vs-scan-dump", fmt.Sprintf("hint-path Open: %s\nscan-path Open: %s", d1, d2)
			}
			if ix1 != ix2 {
				return "hint-vs-scan-index", fmt.Sprintf("index after the hint-path Open:\n %s\nindex after the scan-path Open:\n %s", ix1, ix2)
			}
			if !sameMap(d1.KV, w.Model) {
				return "hint-vs-model", fmt.Sprintf("hint-path Open: %s\nmodel: %s", d1, modelString(w.Model))
			}
			return "", ""
		}()
		if c != "" {
			return c, fmt.Sprintf("copy opened with DataFileSize %d (written with %d): %s", rc.FileSize, w.Cfg.FileSize, d)
		}
	}
	return "", ""
}

func shortKeys(ks []string) []string {
	out := make([]string, len(ks))
	for i, k := range ks {
		out[i] = truncate(k, 8)
	}
	return out
}

func indexString(w *World) string {
	var b strings.Builder
	w.guard(func() error {
		for _, e := range w.DB.VerifIndex() {
			fmt.Fprintf(&b, "%q@%d/%d/%d+%d ", truncate(string(e.Key), 8), e.Fid, e.BlockID, e.Offset, e.Size)
		}
		return nil
	})
	return b.String()
}

// long keys: two of them make the hint file span more than one 32 KiB block (a hint record that starts in
// one block and ends in the next forces the reader to reuse its block buffer while earlier keys are live)
var c18LongKeys = []string{"K" + string(patternBytes(19999, 21)), "L" + string(patternBytes(19999, 22)), "m"}

// very long keys: a hint record longer than one chunk payload (32 761 bytes) is itself written as several chunks
var c18VeryLongKeys = []string{"V" + string(patternBytes(40000, 23)), "W" + string(patternBytes(70000, 24)), "m"}

func c18VeryLongAlphabet(c Cfg) []Op {
	return []Op{
		{K: "put", Key: c18VeryLongKeys[0], VC: "S"},
		{K: "put", Key: c18VeryLongKeys[1], VC: "S"},
		{K: "put", Key: c18VeryLongKeys[2], VC: "S"},
		{K: "del", Key: c18VeryLongKeys[1], Dev: true},
		{K: "restart", Dev: true},
	}
}

// padding inside a REWRITTEN file: the first live record of the merge output ends 1-7 bytes before a block end (its
// length is chosen in absolute terms: the output is packed from offset 0), the next record starts the following block
func c18PaddingAlphabet(c Cfg) []Op {
	return []Op{
		{K: "put", Key: "b", VC: "F", Arg: 32747}, // record of 32761 bytes
		{K: "put", Key: "b", VC: "F", Arg: 32751}, // 32765
		{K: "put", Key: "b", VC: "F", Arg: 32753}, // 32767
		{K: "put", Key: "c", VC: "S"},
		{K: "put", Key: "c", VC: "L"},
		{K: "del", Key: "b", Dev: true},
		{K: "restart", Dev: true},
	}
}

func c18LongAlphabet(c Cfg) []Op {
	return []Op{
		{K: "put", Key: c18LongKeys[0], VC: "S"},
		{K: "put", Key: c18LongKeys[1], VC: "S"},
		{K: "put", Key: c18LongKeys[2], VC: "S"},
		{K: "del", Key: c18LongKeys[0], Dev: true},
		{K: "restart", Dev: true},
	}
}

// longKeyMergeAlphabet: the long-key universe with Merge and restart as symbols (used by C01, C06, C14: a hint
// file spanning block boundaries is only read by the restart that adopts a merge).
func longKeyMergeAlphabet(c Cfg) []Op {
	return []Op{
		{K: "put", Key: c18LongKeys[0], VC: "S"},
		{K: "put", Key: c18LongKeys[1], VC: "S"},
		{K: "put", Key: c18LongKeys[2], VC: "S"},
		{K: "del", Key: c18LongKeys[1], Dev: true},
		{K: "merge", Dev: true},
		{K: "restart", Dev: true},
	}
}

func longKeyCfgs() []Cfg {
	var out []Cfg
	for _, ix := range []int8{1, 2, 3} {
		lc := defaultCfg
		lc.Index, lc.FileSize = ix, 1<<20
		out = append(out, lc)
	}
	return out
}

// sameOffsetAlphabet (block family): key a is rewritten at the SAME in-block offset of a LATER block of the same
// file (a record that ends exactly on a block boundary in between), then merged: positions must be compared in full.
func sameOffsetAlphabet(c Cfg) []Op {
	return []Op{
		{K: "put", Key: "a", VC: "S"},
		{K: "put", Key: "b", VC: "B", Arg: 0},
		{K: "merge"},
		{K: "restart"},
	}
}

func runC18(cfg Cfg, keys []string, ops []Op, res *TaskResult) *Violation {
	// every sequence is followed by Merge (both scan orders on separate runs)
	for _, perm := range []int{0, 1} {
		full := append(append([]Op{}, ops...), Op{K: "merge", Arg: perm})
		merged := false
		v := RunTrace(cfg, keys, full, res, func(w *World, i int, op Op, ar ApplyResult) *Violation {
			if op.K != "merge" || ar.Err != nil || w.Dead {
				return nil
			}
			merged = true
			if c, d := checkHint(w, res); c != "" {
				return viol("C18", c, c, fmt.Sprintf("after step %d %s: %s", i, op, d))
			}
			res.States = append(res.States, w.StateHash())
			return nil
		})
		if v != nil {
			return v
		}
		if merged && perm == 0 {
			res.Nontrivial++
		}
	}
	return nil
}

func init() {
	register(&Check{
		Prop:   "C06",
		Engine: "seq",
		Rule:   "operation sequences with Merge (both scan orders as separate symbols) and restarts: every read path is compared with the reference map after every step (Merge never changes a mapping: live, after adoption, after later restarts); after the adopting restart the merge directory must be gone and the merged files must hold exactly the records live at merge time, once each, no tombstones/sealing records. Fault injection: for every sequence of the fault level, each I/O call of Merge fails once (EIO): no mapping change now or after restart, and a Merge that still returns nil must satisfy the reclaim clause. non-trivial = sequences with at least one successful Merge; output shapes (fewer/equal/more files) are counted. Concurrent part: Merge || 1-2 writer calls (Put/Delete on merged keys) under the controlled scheduler, all schedules up to the preemption bound (unbounded for Merge || 1 call): linearizable history and quiescent live mapping = mapping after the adopting restart = after the next restart",
		Assumptions: []string{
			"Merge's scan order over rotated files is owned by the harness (ascending / descending are distinct symbols)",
			"fault = the call returns EIO without being performed; one fault per run",
		},
		Tasks: func(tier string) []Task {
			d, b := 5, 2
			fd := 3
			if tier == "thorough" {
				d, b, fd = 6, 2, 4
			}
			cfgs := []Cfg{defaultCfg}
			for _, fs := range []int64{64, 200} {
				c := defaultCfg
				c.FileSize = fs
				cfgs = append(cfgs, c)
			}
			mm := defaultCfg
			mm.IO = 1
			bt := defaultCfg
			bt.Index = 1
			cfgs = append(cfgs, mm, bt)
			faultAlpha := func(c Cfg) []Op {
				var a []Op
				for _, o := range c06Alphabet(c) {
					if o.K != "merge" && o.K != "restart" {
						a = append(a, o)
					}
				}
				return a
			}
			tasks := seqTasks("C06", []seqLevel{
				{Name: "long-keys-d5", Cfgs: longKeyCfgs(), Keys: c18LongKeys, Alpha: longKeyMergeAlphabet, Depth: 5, Dev: 3, Run: runC06},
				{Name: "same-offset-d6", Cfgs: []Cfg{blockCfg()}, Keys: keysAB, Alpha: sameOffsetAlphabet, Depth: 6, Dev: 6, Run: runC06},
				{Name: fmt.Sprintf("seq-d%db%d", d, b), Cfgs: cfgs, Keys: keysAB, Alpha: c06Alphabet, Depth: d, Dev: b, Run: runC06},
				{Name: "many-files-d4", Cfgs: []Cfg{manyFilesCfg()}, Keys: keysAB, Alpha: manyFilesAlphabet, Depth: 4, Dev: 4, Run: runC06},
				{Name: "dir-spelling-d5", Cfgs: []Cfg{defaultCfg}, Keys: keysAB, Alpha: dirSpellingAlphabet, Depth: 5, Dev: 2, Run: runC06},
				{Name: fmt.Sprintf("fault-d%d", fd), Cfgs: []Cfg{defaultCfg, mm}, Keys: keysAB, Alpha: faultAlpha, Depth: fd, Dev: 2, Run: runC06Fault},
			})
			// writers racing the merge scan: all schedules of Merge || 1-2 writer calls (same scenarios as C08's
			// merge shapes, judged here under C06: final live outcome = mapping after the adopting restart and the next)
			for _, shape := range []string{"merge+1", "merge+2", "merge+1+1"} {
				pb := -1
				if shape != "merge+1" {
					pb = 2
					if tier == "thorough" {
						pb = 4
					}
				}
				rot := defaultCfg
				rot.FileSize = 64 // every record rotates: racing writers roll the active file over during the scan
				for _, cfg := range []Cfg{defaultCfg, bt, rot} {
					for _, iname := range sortedKeys(c08MergeInits) {
						for si, ts := range c08Shapes(shape) {
							sc := Scenario{Cfg: cfg, Init: c08MergeInits[iname], Threads: ts}
							pb := pb
							tasks = append(tasks, Task{Level: fmt.Sprintf("sched-%s-pb%d", shape, pb), Name: fmt.Sprintf("sched %s #%d %s", shape, si, sc), Fn: func(res *TaskResult) { schedLinRun("C06", sc, pb, res) }})
						}
					}
				}
			}
			return tasks
		},
		Bounds: func(tier string) map[string]any {
			if tier == "quick" {
				return map[string]any{"seq": "depth 5 dev<=2 x 5 cfgs", "fault": "histories of depth 3 x every I/O call of Merge x 2 scan orders x 2 back-ends"}
			}
			return map[string]any{"seq": "depth 6 dev<=2 x 5 cfgs", "fault": "histories of depth 4 x every I/O call of Merge x 2 scan orders x 2 back-ends"}
		},
		Replay: func(raw json.RawMessage) {
			var r seqReplay
			json.Unmarshal(raw, &r)
			if r.Engine == "fault" {
				seqReplayMain(raw, runC06Fault)
				return
			}
			seqReplayMain(raw, runC06)
		},
	})
	register(&Check{
		Prop:   "C18",
		Engine: "seq",
		Rule:   "operation sequences over keys that look like varints (0x80 0x01, 0xff..), a 300-byte key and a plain key (and, in a second level, two 20 000-byte keys that make the hint file span block boundaries, under all three index types), each followed by Merge (both scan orders): the hint file is decoded with the package's reader and every entry is checked against the record decoded at that position in the merged files (key, type, size); hinted keys = stored keys = live keys; differential open of a copy: hint-path Open vs scan-path Open must give the same index entries (positions, sizes), values and KeyNum. non-trivial = sequences whose Merge succeeded",
		Assumptions: []string{
			"differential open on Standard I/O (an outside copy of an open MMap database has no logical file end)",
		},
		Tasks: func(tier string) []Task {
			d, b := 4, 2
			if tier == "thorough" {
				d, b = 5, 3
			}
			cfgs := []Cfg{defaultCfg}
			c64 := defaultCfg
			c64.FileSize = 64
			big := defaultCfg
			big.FileSize = 1000
			mm := defaultCfg
			mm.IO = 1
			cfgs = append(cfgs, c64, big, mm)
			var longCfgs []Cfg
			for _, ix := range []int8{1, 2, 3} {
				lc := defaultCfg
				lc.Index, lc.FileSize = ix, 1<<20
				longCfgs = append(longCfgs, lc)
				lc.FileSize = 30000 // one long-key record per file
				longCfgs = append(longCfgs, lc)
			}
			var veryLongCfgs []Cfg
			for _, fs := range []int64{50000, 1 << 20} {
				vc := defaultCfg
				vc.FileSize = fs // 50000: every very-long-key record alone in its file (several merge output files)
				veryLongCfgs = append(veryLongCfgs, vc)
			}
			return seqTasks("C18", []seqLevel{
				{Name: fmt.Sprintf("d%db%d", d, b), Cfgs: cfgs, Keys: c18Keys, Alpha: c18Alphabet, Depth: d, Dev: b, Run: runC18},
				{Name: "many-files-d4", Cfgs: []Cfg{manyFilesCfg()}, Keys: keysAB, Alpha: manyFilesAlphabet, Depth: 4, Dev: 4, Run: runC18},
				{Name: "long-keys-d4", Cfgs: longCfgs, Keys: c18LongKeys, Alpha: c18LongAlphabet, Depth: 4, Dev: 2, Run: runC18},
				{Name: "padding-d4", Cfgs: []Cfg{megCfg(1 << 20), megCfg(40000)}, Keys: []string{"b", "c"}, Alpha: c18PaddingAlphabet, Depth: 4, Dev: 2, Run: runC18},
				{Name: "very-long-keys-d4", Cfgs: veryLongCfgs, Keys: c18VeryLongKeys, Alpha: c18VeryLongAlphabet, Depth: 4, Dev: 2, Run: runC18},
			})
		},
		Bounds: func(tier string) map[string]any {
			if tier == "quick" {
				return map[string]any{"depth": 4, "deviation_bound": 2, "configs": 4, "scan_orders": 2}
			}
			return map[string]any{"depth": 5, "deviation_bound": 3, "configs": 4, "scan_orders": 2}
		},
		Replay: func(raw json.RawMessage) { seqReplayMain(raw, runC18) },
	})
	_ = errors.New
}

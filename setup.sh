#!/bin/bash
# Builds the framework from files on disk only (offline) and warms the Go build cache.
set -e
export GOFLAGS=-mod=mod GOPROXY=off GOSUMDB=off GOTOOLCHAIN=local
cd "$(dirname "$0")"
mkdir -p .bin evidence replays
(cd tools/instrument && go build -o ../../.bin/instrument .)
# regenerate the forwarding declarations of the shims for this Go version (committed copies are the fallback)
if (cd tools/genshim && go build -o ../../.bin/genshim .) 2>/dev/null; then
  for x in "os vos" "sync vsync" "sync/atomic vatomic" "time vtime"; do
    set -- $x
    if .bin/genshim -real "$1" -shim "rt/$2" -pkg "$2" > "rt/$2/zz_forward.go.new" 2>/dev/null; then
      gofmt "rt/$2/zz_forward.go.new" > "rt/$2/zz_forward.go" 2>/dev/null || true
    fi
    rm -f "rt/$2/zz_forward.go.new"
  done
fi
# warm the build cache (plain and -race) so that checks start quickly
SCR="$(mktemp -d /dev/shm/verif-setup.XXXXXX 2>/dev/null || mktemp -d)"
trap 'rm -rf "$SCR"' EXIT
.bin/instrument -repo /repo -rt "$PWD/rt" -virt "$PWD/overlay" -out "$SCR"
cp harness/go.mod "$SCR/go.mod"; cp harness/go.sum "$SCR/go.sum"
(cd harness && go build -tags verif -modfile "$SCR/go.mod" -overlay "$SCR/overlay.json" -o "$SCR/vcheck" .)
(cd harness && go build -race -tags verif -modfile "$SCR/go.mod" -overlay "$SCR/overlay.json" -o "$SCR/vcheck-race" .) || echo "warning: -race warm-up build failed" >&2
echo setup ok

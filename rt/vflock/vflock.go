// Package vflock replaces github.com/gofrs/flock in the code under test.
package vflock

import (
	"os"
	"syscall"

	"github.com/gofrs/flock"

	"github.com/XiXi-2024/xixi-kv/verifrt/iorec"
	"github.com/XiXi-2024/xixi-kv/verifrt/sched"
)

type Option = flock.Option

func SetFlag(flag int) Option { return flock.SetFlag(flag) }

type Flock struct {
	*flock.Flock
	// orphan: descriptor of a lock file that was opened, then unlinked / replaced by another thread
	// before the flock call (only reachable under the controlled scheduler, see TryLock)
	orphan *os.File
}

func New(path string, opts ...Option) *Flock { return &Flock{Flock: flock.New(path, opts...)} }

func NewFlock(path string) *Flock { return New(path) }

// TryLock. The library opens the lock file and then calls flock(2): two system calls with a window in
// between. Under the controlled scheduler (iorec.SchedPoints) that window is made explorable without
// re-implementing the library: a probe descriptor is opened, other threads may run, and only if the
// path no longer names the probed inode (somebody unlinked / recreated the lock file in the window)
// is the lock taken on the probe descriptor itself — exactly what the library's already opened
// descriptor would have done. Otherwise the probe is dropped and the real TryLock runs.
func (f *Flock) TryLock() (ok bool, err error) {
	if iorec.SchedPoints && sched.GetMode() == sched.ModeCtl {
		probe, perr := os.OpenFile(f.Path(), os.O_CREATE|os.O_RDONLY, 0o644)
		if perr == nil {
			sched.Yield() // the window between open(2) and flock(2)
			pst, e1 := probe.Stat()
			cst, e2 := os.Stat(f.Path())
			if e1 == nil && (e2 != nil || !os.SameFile(pst, cst)) {
				err = iorec.Do("flock", f.Path(), "", 0, 2, func() error {
					if e := syscall.Flock(int(probe.Fd()), syscall.LOCK_EX|syscall.LOCK_NB); e != nil {
						if e == syscall.EWOULDBLOCK {
							return nil
						}
						return e
					}
					ok = true
					return nil
				})
				if ok {
					f.orphan = probe
				} else {
					probe.Close()
				}
				return
			}
			probe.Close()
		}
	}
	err = iorec.Do("flock", f.Path(), "", 0, 0, func() error {
		var e error
		ok, e = f.Flock.TryLock()
		return e
	})
	return
}

func (f *Flock) Lock() error {
	return iorec.Do("flock", f.Path(), "", 0, 1, func() error { return f.Flock.Lock() })
}

func (f *Flock) Unlock() error {
	return iorec.Do("funlock", f.Path(), "", 0, 0, func() error {
		if f.orphan != nil {
			syscall.Flock(int(f.orphan.Fd()), syscall.LOCK_UN)
			f.orphan.Close()
			f.orphan = nil
			return nil
		}
		return f.Flock.Unlock()
	})
}

func (f *Flock) Close() error {
	return iorec.Do("funlock", f.Path(), "", 0, 1, func() error {
		if f.orphan != nil {
			f.orphan.Close()
			f.orphan = nil
		}
		return f.Flock.Close()
	})
}

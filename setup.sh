#!/bin/bash
# Builds the framework from files on disk only (offline) and warms the Go build cache.
set -e
export GOFLAGS=-mod=mod GOPROXY=off GOSUMDB=off GOTOOLCHAIN=local
cd "$(dirname "$0")"
mkdir -p .bin evidence replays
(cd tools/instrument && go build -o ../../.bin/instrument .)
# warm the build cache (plain and -race) so that checks start quickly
SCR="$(mktemp -d /dev/shm/verif-setup.XXXXXX 2>/dev/null || mktemp -d)"
trap 'rm -rf "$SCR"' EXIT
.bin/instrument -repo /repo -rt "$PWD/rt" -virt "$PWD/overlay" -out "$SCR"
cp harness/go.mod "$SCR/go.mod"; cp harness/go.sum "$SCR/go.sum"
(cd harness && go build -tags verif -modfile "$SCR/go.mod" -overlay "$SCR/overlay.json" -o "$SCR/vcheck" .)
(cd harness && go build -race -tags verif -modfile "$SCR/go.mod" -overlay "$SCR/overlay.json" -o "$SCR/vcheck-race" .) || echo "warning: -race warm-up build failed" >&2
echo setup ok

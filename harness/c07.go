package main

import (
	"encoding/json"
	"fmt"
	"os"
	"path/filepath"
	"sort"
	"strings"

	"github.com/XiXi-2024/xixi-kv/verifrt/iorec"
	"github.com/XiXi-2024/xixi-kv/verifrt/sched"
)

// C07 — a crash during merge or during merge adoption never loses or resurrects data (nested crashes).

func c07Alphabet(c Cfg) []Op {
	return []Op{
		{K: "put", Key: "a", VC: "S"},
		{K: "put", Key: "b", VC: "S"},
		{K: "del", Key: "a"},
		{K: "put", Key: "a", VC: "L", Dev: true},
		{K: "put", Key: "b", VC: "L", Dev: true},
		{K: "batch", Sub: []Op{{K: "put", Key: "a", VC: "S"}, {K: "del", Key: "b"}}, Dev: true},
		{K: "restart", Dev: true},
		{K: "merge", Dev: true}, // an earlier, completed merge (adopted or not) in the history
		{K: "gap", Dev: true},   // ... and one that left a gap in the data file ids (several files into fewer, adopted)
	}
}

// recoverNested opens image s while recording; returns the dump, and the crash points of that Open.
func recoverNested(s *Snap, cfg Cfg, keys []string, res *TaskResult) (rec recovery, points []*crashPoint) {
	imgSeq++
	root := filepath.Join(scratchRoot(), fmt.Sprintf("img%d-n", imgSeq))
	defer os.RemoveAll(root)
	if err := s.materialize(root); err != nil {
		return recovery{OpenErr: "harness: " + err.Error()}, nil
	}
	cr := newCrashRecorder(root)
	cr.active = true
	cr.op = 0
	saveAfter := iorec.After
	iorec.After = cr.after
	w := &World{Cfg: cfg, Root: root, Dir: filepath.Join(root, "db"), Model: map[string]string{}, Keys: keys, Cnt: map[string]int64{}, Hist: map[string]map[string]bool{}}
	res.Evals++
	err := w.Open()
	iorec.After = saveAfter
	points = cr.points
	if err != nil {
		return recovery{OpenErr: errClass(err) + ": " + truncate(panicDetail(err), 300)}, points
	}
	d := w.DumpDB()
	w.Close()
	return recovery{Dump: d}, points
}

// removeAllPartials synthesises, for a crash point whose NEXT event is a removeall of dir, the images in
// which a subset of the entries of dir is already gone (all subsets up to 6 entries, else all prefixes in
// both directory orders).
func removeAllPartials(before *Snap, dirRel string) []*Snap {
	var ents []string
	for rel := range before.Files {
		if strings.HasPrefix(rel, dirRel+"/") && !strings.HasSuffix(rel, "\x00size") {
			ents = append(ents, rel)
		}
	}
	sort.Strings(ents)
	var out []*Snap
	mk := func(gone []string) {
		s := before.clone()
		for _, g := range gone {
			delete(s.Files, g)
			delete(s.Files, g+"\x00size")
		}
		out = append(out, s)
	}
	if len(ents) <= 6 {
		for mask := 1; mask < 1<<len(ents); mask++ {
			var gone []string
			for i, e := range ents {
				if mask&(1<<i) != 0 {
					gone = append(gone, e)
				}
			}
			mk(gone)
		}
	} else {
		for i := 1; i <= len(ents); i++ {
			mk(ents[:i])
			mk(ents[len(ents)-i:])
		}
	}
	return out
}

type c07Replay struct {
	crashReplay
	Path []string `json:"nested_path"`
}

// judgeNested checks image s (reached through path) and, down to depth levels, the crash points of its own recovery.
func judgeNested(cfg Cfg, keys []string, ops []Op, s *Snap, want map[string]string, depth int, path []string, seen map[uint64]bool, res *TaskResult) *Violation {
	h := s.hash() ^ uint64(depth)*0x9e3779b97f4a7c15
	if seen[h] {
		return nil
	}
	seen[h] = true
	res.States = append(res.States, s.hash())
	mk := func(clause, detail string) *Violation {
		return &Violation{Prop: "C07", Clause: clause, Sig: clause + ":" + sigOfPath(path),
			Detail: fmt.Sprintf("cfg=%s trace=[%s]\ncrash path: %s\nimage: %s\n%s\nacknowledged mapping: %s", cfg, traceString(ops), strings.Join(path, "  ->  "), s.listing(), detail, modelString(want)),
			Replay: mustJSON(c07Replay{crashReplay: crashReplay{Engine: "crash-nested", Prop: "C07", Cfg: cfg, Keys: keys, Ops: ops, Trace: traceString(ops)}, Path: path})}
	}
	rec, points := recoverNested(s, cfg, keys, res)
	if rec.OpenErr != "" {
		return mk("open-fails", "Open of the crash image failed: "+rec.OpenErr)
	}
	if rec.Dump.Err != "" || !sameMap(rec.Dump.KV, want) || rec.Dump.KeyNum != len(want) {
		return mk("mapping-differs", "recovered: "+rec.Dump.String())
	}
	if depth <= 1 {
		// innermost level: opening the recovered directory once more must agree too
		return nil
	}
	var prev *Snap = s
	for _, p := range points {
		// expansion of remove-all: any subset of the directory's entries may already be gone
		if strings.HasPrefix(p.Event, "removeall ") {
			dirRel := strings.TrimPrefix(p.Event, "removeall ")
			for i, ps := range removeAllPartials(prev, dirRel) {
				res.count("partial_removeall_images", 1)
				if v := judgeNested(cfg, keys, ops, ps, want, depth-1, append(append([]string{}, path...), fmt.Sprintf("partial-removeall %s #%d", dirRel, i)), seen, res); v != nil {
					return v
				}
			}
		}
		if v := judgeNested(cfg, keys, ops, p.Snap, want, depth-1, append(append([]string{}, path...), fmt.Sprintf("recovery Open crashed after event %q", p.Event)), seen, res); v != nil {
			return v
		}
		prev = p.Snap
	}
	return nil
}

func sigOfPath(path []string) string {
	// signature = kinds of the steps, without file names
	var k []string
	for _, p := range path {
		f := strings.Fields(p)
		switch {
		case strings.HasPrefix(p, "partial-removeall"):
			k = append(k, "partial-removeall")
		case strings.HasPrefix(p, "recovery Open crashed"):
			k = append(k, "nested")
		case len(f) > 0:
			k = append(k, f[0])
		}
	}
	return strings.Join(k, ">")
}

// runC07 judges one history followed by (a) Merge and (b) Merge + adopting restart.
func runC07(cfg Cfg, keys []string, ops []Op, res *TaskResult) *Violation {
	nest := c07Nesting
	for _, perm := range []int{0, 1} {
		for _, tail := range [][]Op{{{K: "merge", Arg: perm}}, {{K: "merge", Arg: perm}, {K: "restart"}}} {
			full := append(append([]Op{}, ops...), tail...)
			from := len(full) - 1
			run := recordCrashRun(cfg, keys, full, from, res)
			if run.Err != "" {
				res.count("workload_failed", 1)
				continue
			}
			want := run.States[len(run.States)-1] // merge and restart do not change the mapping
			if !sameMap(want, run.States[from]) {
				continue
			}
			res.count("crash_points", int64(len(run.Points)))
			seen := map[uint64]bool{}
			var prev *Snap
			for _, p := range run.Points {
				kind := "Merge"
				if tail[len(tail)-1].K == "restart" {
					kind = "adopting-restart"
				}
				path := []string{fmt.Sprintf("%s crashed after event #%d %q", kind, p.EvSeq, p.Event)}
				if prev != nil && strings.HasPrefix(p.Event, "removeall ") {
					dirRel := strings.TrimPrefix(p.Event, "removeall ")
					for i, ps := range removeAllPartials(prev, dirRel) {
						res.count("partial_removeall_images", 1)
						if v := judgeNested(cfg, keys, full, ps, want, nest, []string{fmt.Sprintf("%s partial-removeall %s #%d", kind, dirRel, i)}, seen, res); v != nil {
							return v
						}
					}
				}
				if v := judgeNested(cfg, keys, full, p.Snap, want, nest, path, seen, res); v != nil {
					return v
				}
				prev = p.Snap
			}
		}
	}
	res.Nontrivial++
	return nil
}

var c07Nesting = 2

// the writers that race the Merge in the crash-during-race level
var c07RaceWriters = []Op{
	{K: "put", Key: "a", VC: "S"},
	{K: "del", Key: "a"},
	{K: "batch", Sub: []Op{{K: "put", Key: "a", VC: "S"}, {K: "del", Key: "b"}}},
	// flushed in two pieces at DataFileSize 130: the first piece reaches the log (and the index) before the seal exists
	{K: "batch", Sub: []Op{{K: "put", Key: "a", VC: "L"}, {K: "put", Key: "b", VC: "L"}, {K: "put", Key: "a", VC: "S"}}},
}

// ---- graceful shutdown while Merge is running ("an unfinished merge is ignored") ----------------------------
// Merge holds no lock while it scans; Close may run in the middle of it. Whatever the interleaving, the merge
// either finished (and is adopted once) or must be ignored: the next Open exposes the acknowledged mapping.

func c07CloseDuringMerge(cfg Cfg, init []Op, pb int) func(res *TaskResult) {
	return func(res *TaskResult) {
		outcomes := map[string]bool{}
		var want map[string]string
		run := func(prefix []int8) *ExecResult {
			beginExecution()
			w := NewWorld(cfg, keysAB)
			defer w.Destroy()
			ex := &ExecResult{}
			if err := w.Open(); err != nil {
				ex.OpenErr = panicDetail(err)
				return ex
			}
			for _, op := range init {
				if ar := w.Apply(op); ar.Err != nil || w.Dead {
					ex.OpenErr = "init failed"
					return ex
				}
			}
			want = copyModel(w.Model)
			db := w.DB
			var mergeErr, closeErr string
			// Close is only issued once Merge has really begun (its first I/O call, the rotation, has happened):
			// Merge on an already closed handle is API misuse, not the situation the property speaks about
			mergeStarted, skipped := false, false
			iorec.After = func(ev *iorec.Event) { mergeStarted = true }
			ex.Sched = sched.Run(prefix, func() { mergeErr = errClass(db.Merge()) }, func() {
				for i := 0; i < 4 && !mergeStarted; i++ {
					sched.Yield()
				}
				if !mergeStarted {
					skipped = true
					return
				}
				closeErr = errClass(db.Close())
			})
			iorec.After = nil
			sched.SetMode(sched.ModeSeq)
			if skipped {
				ex.OpenErr = "skipped"
				return ex
			}
			ex.Calls = []CallRec{{Thread: 0, Call: Call{K: "merge"}, Err: mergeErr}, {Thread: 1, Call: Call{K: "close"}, Err: closeErr}}
			if ex.Sched.Abort != sched.AbortNone {
				w.Dead = true
				return ex
			}
			for _, p := range ex.Sched.Panics {
				if p != "" {
					w.Dead = true
					return ex
				}
			}
			w.DB = nil
			for k := 0; k < 2; k++ {
				if err := w.Open(); err != nil {
					ex.OpenErr = fmt.Sprintf("Open #%d after Merge || Close: %s", k+1, panicDetail(err))
					return ex
				}
				d := w.DumpDB()
				if k == 0 {
					ex.Restart = d
				} else {
					ex.Restart2 = d
				}
				if err := w.Close(); err != nil {
					ex.OpenErr = "Close: " + panicDetail(err)
					return ex
				}
			}
			return ex
		}
		sc := Scenario{Cfg: cfg, Init: init, Threads: [][]Call{{{K: "merge"}}, {{K: "close"}}}}
		n, complete := exploreSchedules(run, pb, 200000, func(ex *ExecResult, prefix []int8) bool {
			res.Execs++
			if ex.Sched == nil {
				return true
			}
			res.Transitions += ex.Sched.Points
			if ex.OpenErr == "skipped" {
				res.count("close_before_merge_started_not_judged", 1)
				return true
			}
			res.Evals++
			bad := ""
			switch {
			case ex.Sched.Abort == sched.AbortDiv:
				res.Err = "replay divergence in Merge || Close"
				return false
			case ex.Sched.Abort != sched.AbortNone:
				bad = "deadlock / livelock between Merge and Close"
			case ex.OpenErr != "":
				bad = ex.OpenErr
			}
			for i, p := range ex.Sched.Panics {
				if p != "" && bad == "" {
					bad = fmt.Sprintf("thread %d panicked: %s", i, firstLine(p))
				}
			}
			if bad == "" {
				for i, d := range []*Dump{ex.Restart, ex.Restart2} {
					if d == nil || d.Err != "" || !sameMap(d.KV, want) || d.KeyNum != len(want) {
						bad = fmt.Sprintf("Open #%d after Merge || Close (Merge returned %s, Close returned %s) exposes %s, acknowledged mapping %s", i+1, ex.Calls[0].Err, ex.Calls[1].Err, d, modelString(want))
						break
					}
				}
			}
			if bad != "" {
				res.Violations = append(res.Violations, Violation{Prop: "C07", Clause: "close-during-merge", Sig: "close-during-merge",
					Detail: fmt.Sprintf("scenario %s\nschedule: %s\n%s", sc, describeSchedule(ex), bad),
					Replay: mustJSON(schedReplay{Engine: "sched-close", Prop: "C07", Scenario: sc, Schedule: append([]int8{}, ex.Sched.Choices...), Text: sc.String()})})
				return false
			}
			outcomes[ex.Calls[0].Err+"/"+ex.Calls[1].Err] = true
			return true
		})
		if !complete {
			res.Partial = true
		}
		for o := range outcomes {
			res.States = append(res.States, hash64(sc.String(), o))
		}
		if len(outcomes) > 1 {
			res.Nontrivial++
		}
		res.count("max:schedules_per_scenario", int64(n))
		res.Samples = append(res.Samples, fmt.Sprintf("%s: %d schedules, outcomes (Merge/Close) %v", sc, n, sortedKeys(outcomes)))
	}
}

func init() {
	register(&Check{
		Prop:   "C07",
		Engine: "crash",
		Rule:   "every history within the bound, followed by Merge (both scan orders) and by Merge + adopting restart: a crash image after EVERY I/O event of Merge / of the adopting Open (plus, before each remove-all, every subset of the directory's entries already gone); each image is opened with the real Open and must expose exactly the acknowledged mapping; nested: the recovery Open is itself recorded and crashed after each of ITS events, down to the nesting depth; plus, under the controlled scheduler, Close racing a running Merge (all schedules up to the preemption bound): the next two Opens expose the acknowledged mapping; and Merge racing one writer (Put / Delete / batch / a batch flushed in pieces): ALL schedules (preemption bound 4 in the quick tier), a crash image after EVERY I/O call of either thread, every power-loss cut of the unsynced tails, and the crash points of each image's own recovery: the mapping before or after the writer's call (only after it once the call returned and the process merely died). states = distinct crash images (all levels)",
		Assumptions: []string{
			"sequential levels: process death only (no tail cuts): file-system calls are atomic and durable in issue order; the racing level also cuts unsynced tails",
			"remove-all is additionally expanded into every subset of already removed entries (<= 6 entries) without changing what the real call does",
			"Standard I/O (DataFileSize 130 and 64) and MMap (64, histories one shorter); B-tree and skip-list index under DataFileSize 64 (histories one shorter)",
		},
		Tasks: func(tier string) []Task {
			d, b := 3, 2
			if tier == "thorough" {
				d, b = 4, 2
				c07Nesting = 3
			}
			cfgs := []Cfg{defaultCfg}
			c64 := defaultCfg
			c64.FileSize = 64
			cfgs = append(cfgs, c64)
			mm := c64
			mm.IO = 1
			var levels []seqLevel
			for l := 1; l <= d; l++ {
				levels = append(levels, seqLevel{Name: fmt.Sprintf("history-len%d-nest%d", l, c07Nesting), Cfgs: cfgs, Keys: keysAB, Alpha: c07Alphabet, Depth: l, Dev: b, Run: runC07, MaxViols: 1})
			}
			for l := 1; l <= d-1; l++ {
				levels = append(levels, seqLevel{Name: fmt.Sprintf("mmap-history-len%d-nest%d", l, c07Nesting), Cfgs: []Cfg{mm}, Keys: keysAB, Alpha: c07Alphabet, Depth: l, Dev: b, Run: runC07, MaxViols: 1})
			}
			// the ordered index types keep the key slice they are handed (the hash map copies it into a string): the
			// index built by the adopting Open - from the hint file, and again by every crashed-and-retried adoption - under
			// B-tree and skip list, every record in its own file (the hint alone speaks for all merged files but the last)
			for _, ix := range []int8{1, 2} {
				oc := c64
				oc.Index = ix
				for l := 1; l <= d-1; l++ {
					levels = append(levels, seqLevel{Name: fmt.Sprintf("ordered-index-history-len%d-nest%d", l, c07Nesting), Cfgs: []Cfg{oc}, Keys: keysAB, Alpha: c07Alphabet, Depth: l, Dev: b, Run: runC07, MaxViols: 1})
				}
			}
			tasks := seqTasks("C07", levels)
			pb := 3
			if tier == "thorough" {
				pb = -1
			}
			for _, c := range cfgs {
				for name, init := range c08MergeInits {
					tasks = append(tasks, Task{Level: "close-during-merge", Name: "close during merge " + c.String() + " " + name, Fn: c07CloseDuringMerge(c, init, pb)})
				}
			}
			rpb := 4
			if tier == "thorough" {
				rpb = -1
			}
			sd := 2
			if tier == "thorough" {
				sd = 3
			}
			for _, sp := range [][2]int{{1, 0}, {0, 1}, {2, 0}, {3, 0}, {0, 3}, {1, 2}, {4, 0}, {0, 4}} {
				tasks = append(tasks, Task{Level: "spelling", Name: fmt.Sprintf("spelling %d then %d", sp[0], sp[1]), Fn: c07SpellingTask(defaultCfg, sp[0], sp[1], sd)})
			}
			rcfgs := []Cfg{defaultCfg}
			if tier == "thorough" {
				bt := defaultCfg
				bt.Index = 1
				rcfgs = append(rcfgs, c64, mm, bt)
			}
			for _, c := range rcfgs {
				for _, name := range sortedKeys(c08MergeInits) {
					for _, wr := range c07RaceWriters {
						tasks = append(tasks, Task{Level: "crash-during-merge-race", Name: fmt.Sprintf("crash during merge race %s %s %s", c, name, wr), Fn: c07CrashDuringRace(c, name, c08MergeInits[name], wr, rpb, true)})
					}
				}
			}
			return tasks
		},
		Bounds: func(tier string) map[string]any {
			if tier == "quick" {
				return map[string]any{"history_length": "1..3", "deviation_bound": 2, "crash_nesting": 2, "configs": 2, "scan_orders": 2}
			}
			return map[string]any{"history_length": "1..4", "deviation_bound": 2, "crash_nesting": 3, "configs": 2, "scan_orders": 2}
		},
		Replay: func(raw json.RawMessage) {
			var e struct {
				Engine string `json:"engine"`
			}
			json.Unmarshal(raw, &e)
			if e.Engine == "sched-crash" {
				replayRaceCrash(raw)
				return
			}
			var r c07Replay
			json.Unmarshal(raw, &r)
			// the recorded ops include the Merge / restart tail: strip it and re-judge the history
			ops := r.Ops
			for len(ops) > 0 && (ops[len(ops)-1].K == "restart" || ops[len(ops)-1].K == "merge") {
				ops = ops[:len(ops)-1]
			}
			var res TaskResult
			if v := runC07(r.Cfg, r.Keys, ops, &res); v != nil {
				fmt.Printf("VIOLATION clause=%s\n%s\n", v.Clause, v.Detail)
				os.Exit(1)
			}
			fmt.Println("no violation on this tree")
		},
	})
}

// ---- process death while Merge races a writer (schedules x crash points) ------------------------------------
// Merge scans without the lock; a writer (Put, Delete, a batch, a batch large enough to be flushed in pieces) runs
// in the middle of it. For EVERY schedule up to the preemption bound a crash image is taken after EVERY I/O call of
// either thread; each distinct image is opened with the real Open: it must expose the mapping before the writer's
// call or the one after it (only the latter once the call has returned) - the merge never changes any value.

type raceCrashReplay struct {
	Engine   string `json:"engine"`
	Prop     string `json:"property"`
	Cfg      Cfg    `json:"cfg"`
	Init     []Op   `json:"init"`
	Writer   Op     `json:"writer"`
	Schedule []int8 `json:"schedule"`
	Event    int    `json:"event"`
	Cut      string `json:"cut,omitempty"`
	Text     string `json:"text"`
}

type raceSnap struct {
	snap       *Snap
	ev         string
	writerDone bool
	idx        int
	synced     map[string]int64
}

// runRaceCrash executes one schedule of Merge || writer and returns the crash images, the two admissible mappings
// and the scheduler's result. The initial history is made durable by Sync() before the race begins.
func runRaceCrash(cfg Cfg, init []Op, writer Op, prefix []int8) (ex *ExecResult, snaps []raceSnap, pre, post map[string]string) {
	beginExecution()
	w := NewWorld(cfg, keysAB)
	defer w.Destroy()
	ex = &ExecResult{}
	rec := newCrashRecorder(w.Root)
	racing, writerDone := false, false
	take := func(ev string) {
		syn := make(map[string]int64, len(rec.synced))
		for k, v := range rec.synced {
			syn[k] = v
		}
		snaps = append(snaps, raceSnap{snap: takeSnap(w.Root), ev: ev, writerDone: writerDone, idx: len(snaps), synced: syn})
	}
	iorec.After = func(ev *iorec.Event) {
		rec.after(ev)
		if racing {
			take(fmt.Sprintf("%s %s", ev.Op, rec.rel(ev.Path)))
		}
	}
	defer func() { iorec.After = nil }()
	if err := w.Open(); err != nil {
		ex.OpenErr = panicDetail(err)
		return
	}
	for _, op := range append(append([]Op{}, init...), Op{K: "sync"}) {
		if ar := w.Apply(op); ar.Err != nil || w.Dead {
			ex.OpenErr = "init failed"
			return
		}
	}
	pre = copyModel(w.Model)
	db := w.DB
	var mergeErr string
	var war ApplyResult
	racing = true
	ex.Sched = sched.Run(prefix, func() { mergeErr = errClass(db.Merge()) }, func() {
		war = w.Apply(writer)
		writerDone = true
	})
	racing = false
	sched.SetMode(sched.ModeSeq)
	post = copyModel(w.Model)
	ex.Calls = []CallRec{{Thread: 0, Call: Call{K: "merge"}, Err: mergeErr}, {Thread: 1, Call: Call{K: writer.String()}, Err: errClass(war.Err)}}
	if ex.Sched.Abort != sched.AbortNone {
		w.Dead = true
		return
	}
	for _, p := range ex.Sched.Panics {
		if p != "" {
			w.Dead = true
			return
		}
	}
	// the final state (both returned) is one more crash point
	take("both calls returned")
	return
}

func raceAdmissible(d *Dump, pre, post map[string]string, alsoPre bool) bool {
	if d == nil || d.Err != "" {
		return false
	}
	if sameMap(d.KV, post) && d.KeyNum == len(post) {
		return true
	}
	return alsoPre && sameMap(d.KV, pre) && d.KeyNum == len(pre)
}

// judgeRaceSnap: process death at this instant (cut == ""), or the power-loss image s.snap already cut.
func judgeRaceSnap(cfg Cfg, s raceSnap, img *Snap, power bool, pre, post map[string]string, res *TaskResult) string {
	r := recoverImage(img, cfg, keysAB, res)
	if r.OpenErr != "" {
		return "Open failed: " + r.OpenErr
	}
	// process death: the writer's mutation may be missing only while its call has not returned; power loss: the
	// writer never synced, so the mapping before its call stays admissible
	alsoPre := power || !s.writerDone
	if !raceAdmissible(r.Dump, pre, post, alsoPre) {
		allowed := "after the writer's call " + modelString(post)
		if alsoPre {
			allowed = "before the writer's call " + modelString(pre) + " or " + allowed
		}
		return fmt.Sprintf("recovered %s; admissible: %s", r.Dump, allowed)
	}
	if r.Second != "" {
		return r.Second
	}
	return ""
}

func c07CrashDuringRace(cfg Cfg, initName string, init []Op, writer Op, pb int, power bool) func(res *TaskResult) {
	return func(res *TaskResult) {
		seen := map[uint64]bool{}
		nestedSeen := map[uint64]bool{}
		text := fmt.Sprintf("%s init=%s[%s] T0[merge] || T1[%s], crash after every I/O call", cfg, initName, traceString(init), writer)
		n, complete := exploreSchedules(func(prefix []int8) *ExecResult {
			ex, snaps, pre, post := runRaceCrash(cfg, init, writer, prefix)
			if ex.Sched == nil || ex.Sched.Abort != sched.AbortNone || ex.OpenErr != "" {
				return ex
			}
			for _, p := range ex.Sched.Panics {
				if p != "" {
					return ex
				}
			}
			if ex.Calls[1].Err != "nil" {
				res.count("writer_failed_not_judged", 1)
				return ex
			}
			report := func(s raceSnap, img *Snap, cut, bad string) {
				kind := "process death"
				if cut != "" {
					kind = "power loss, " + cut
				}
				v := Violation{Prop: "C07", Clause: "crash-during-merge-race", Sig: "crash-during-merge-race:" + writer.K + ":" + firstWord(kind),
					Detail: fmt.Sprintf("%s\nschedule: %s\ncrash point: after I/O call #%d (%s), writer returned: %v, %s\nimage: %s\n%s", text, describeSchedule(ex), s.idx, s.ev, s.writerDone, kind, img.listing(), bad),
					Replay: mustJSON(raceCrashReplay{Engine: "sched-crash", Prop: "C07", Cfg: cfg, Init: init, Writer: writer, Schedule: append([]int8{}, ex.Sched.Choices...), Event: s.idx, Cut: cut, Text: text})}
				if !isKnown(&v) {
					ex.OpenErr = "violation"
				}
				addViolation(res, &v)
			}
			for _, s := range snaps {
				h := s.snap.hash()
				if s.writerDone {
					h ^= 0x9e3779b97f4a7c15
				}
				if !seen[h] {
					seen[h] = true
					res.States = append(res.States, h)
					if bad := judgeRaceSnap(cfg, s, s.snap, false, pre, post, res); bad != "" {
						report(s, s.snap, "", bad)
						break
					}
					// the recovery of this image is itself crashed after each of its I/O calls (removal of an unfinished
					// merge directory, adoption of a finished one): every nested image recovers to the same mapping
					if r := recoverImage(s.snap, cfg, keysAB, res); r.OpenErr == "" && r.Dump != nil && r.Dump.Err == "" {
						if v := judgeNested(cfg, keysAB, nil, s.snap, r.Dump.KV, 2, []string{fmt.Sprintf("race image after I/O call #%d (%s)", s.idx, s.ev)}, nestedSeen, res); v != nil {
							report(s, s.snap, "", "nested: "+v.Clause+"\n"+v.Detail)
							break
						}
					}
				}
				if !power {
					continue
				}
				stop := false
				cutImages(&crashPoint{Snap: s.snap, Synced: s.synced}, pairCutCap, nil, func(img *Snap, desc string) bool {
					hc := img.hash() ^ 0x5851f42d4c957f2d
					if seen[hc] {
						return true
					}
					seen[hc] = true
					res.count("cut_images", 1)
					if bad := judgeRaceSnap(cfg, s, img, true, pre, post, res); bad != "" {
						report(s, img, desc, bad)
						stop = true
						return false
					}
					return true
				})
				if stop {
					break
				}
			}
			return ex
		}, pb, 200000, func(ex *ExecResult, prefix []int8) bool {
			res.Execs++
			if ex.Sched == nil {
				return true
			}
			res.Transitions += ex.Sched.Points
			switch {
			case ex.Sched.Abort == sched.AbortDiv:
				res.Err = "replay divergence in Merge || writer"
				return false
			case ex.Sched.Abort != sched.AbortNone:
				res.count("aborted_schedules_not_judged_here", 1) // deadlocks are C09's
			}
			return ex.OpenErr != "violation"
		})
		if !complete {
			res.Partial = true
		}
		if len(seen) > 2 {
			res.Nontrivial++
		}
		res.count("max:schedules_per_scenario", int64(n))
		res.Samples = append(res.Samples, fmt.Sprintf("%s: %d schedules, %d distinct crash images", text, n, len(seen)))
	}
}

func replayRaceCrash(raw json.RawMessage) {
	var r raceCrashReplay
	json.Unmarshal(raw, &r)
	ex, snaps, pre, post := runRaceCrash(r.Cfg, r.Init, r.Writer, r.Schedule)
	if ex.Sched == nil || r.Event >= len(snaps) {
		fmt.Println("the recorded schedule does not reach the recorded crash point on this tree")
		return
	}
	var res TaskResult
	s := snaps[r.Event]
	bad := ""
	if r.Cut == "" {
		bad = judgeRaceSnap(r.Cfg, s, s.snap, false, pre, post, &res)
		if rr := recoverImage(s.snap, r.Cfg, keysAB, &res); bad == "" && rr.OpenErr == "" && rr.Dump != nil && rr.Dump.Err == "" {
			if v := judgeNested(r.Cfg, keysAB, nil, s.snap, rr.Dump.KV, 2, []string{"race image"}, map[uint64]bool{}, &res); v != nil {
				bad = "nested: " + v.Clause + "\n" + v.Detail
			}
		}
	} else {
		cutImages(&crashPoint{Snap: s.snap, Synced: s.synced}, pairCutCap, nil, func(img *Snap, desc string) bool {
			if desc != r.Cut {
				return true
			}
			bad = judgeRaceSnap(r.Cfg, s, img, true, pre, post, &res)
			return false
		})
	}
	if bad != "" {
		fmt.Printf("VIOLATION clause=crash-during-merge-race\n%s\ncrash point #%d (%s) %s\n%s\n", r.Text, r.Event, s.ev, r.Cut, bad)
		os.Exit(1)
	}
	fmt.Println("no violation on this tree")
}

// ---- a crash between Merge and adoption, recovery under ANOTHER spelling of the directory path ------------------
// The process dies after Merge has finished (the merge is pending). The directory is then opened under a different
// spelling of the same path, used (deletes, overwrites, a second merge, restarts), and later opened under the first
// spelling again: the pending merge is adopted exactly once, by whichever Open comes first, and never over newer data.
func c07SpellingTask(cfg Cfg, s1, s2 int, depth int) func(res *TaskResult) {
	return func(res *TaskResult) {
		alpha := c07Alphabet(cfg)
		script := []Op{{K: "del", Key: "a"}, {K: "put", Key: "b", VC: "S"}, {K: "put", Key: "a", VC: "L"}, {K: "merge", Arg: 1}, {K: "restart"},
			{K: "put", Key: "a", VC: "S"}, {K: "restartslash", Arg: s1}, {K: "restart"}, {K: "restartslash", Arg: s2}}
		if s1 == 0 {
			script[6] = Op{K: "restartslash", Arg: -1}
		}
		n := 0
		enumSeq(alpha, depth, depth, nil, func(hist []Op) bool {
			n++
			progressTick.Add(1)
			beginExecution()
			w := NewWorld(cfg, keysAB)
			w.DirSpell = s1
			res.Execs++
			fail := func(detail string) bool {
				ops := append(append(append([]Op{}, hist...), Op{K: "merge", Arg: 1}), script...)
				addViolation(res, &Violation{Prop: "C07", Clause: "spelling", Sig: fmt.Sprintf("spelling:%d>%d", s1, s2),
					Detail: fmt.Sprintf("cfg=%s history under spelling %d [%s; merge(,1)], process death, recovery under spelling %d followed by [%s]\n%s", cfg, s1, traceString(hist), s2, traceString(script), detail),
					Replay: mustJSON(map[string]any{"engine": "spelling", "property": "C07", "cfg": cfg, "s1": s1, "s2": s2, "hist": hist, "trace": traceString(ops)})})
				return false
			}
			if err := w.Open(); err != nil {
				w.Destroy()
				return true
			}
			okRun := true
			for _, op := range append(append([]Op{}, hist...), Op{K: "merge", Arg: 1}) {
				if ar := w.Apply(op); (ar.Err != nil && op.K != "merge") || w.Dead {
					okRun = false
					break
				}
				res.Transitions++
			}
			if !okRun {
				w.Destroy()
				return true
			}
			want := copyModel(w.Model)
			snap := takeSnap(w.Root) // process death: nothing is closed
			w.Destroy()
			imgSeq++
			root := filepath.Join(scratchRoot(), fmt.Sprintf("spell%d", imgSeq))
			defer os.RemoveAll(root)
			if err := snap.materialize(root); err != nil {
				return true
			}
			w2 := &World{Cfg: cfg, Root: root, Dir: filepath.Join(root, "db"), Model: copyModel(want), Keys: keysAB, Cnt: map[string]int64{}, Hist: map[string]map[string]bool{}, DirSpell: s2}
			defer func() {
				if w2.DB != nil && !w2.Dead {
					w2.Close()
				}
			}()
			res.Evals++
			if err := w2.Open(); err != nil {
				return fail("recovery Open failed: " + panicDetail(err))
			}
			if c, d := w2.CheckReads(); c != "" {
				return fail("after the recovery Open: " + d)
			}
			w2.Step = 50
			for i, op := range script {
				if op.K == "restartslash" && op.Arg == -1 {
					op.Arg = 0
					w2.DirSpell = 1 // toggles to 0
				}
				ar := w2.Apply(op)
				res.Transitions++
				if (ar.Err != nil && op.K != "merge") || ar.Clause != "" || w2.Dead {
					return fail(fmt.Sprintf("step %d %s of the recovery script: %s %s", i, op, errClass(ar.Err), ar.Detail))
				}
				if c, d := w2.CheckReads(); c != "" {
					return fail(fmt.Sprintf("after step %d %s of the recovery script (spelling now %d): %s; model %s", i, op, w2.DirSpell, d, modelString(w2.Model)))
				}
			}
			res.States = append(res.States, w2.StateHash())
			res.Nontrivial++
			return true
		})
		res.Samples = append(res.Samples, fmt.Sprintf("%s: %d histories (depth <= %d) + merge under spelling %d, death, recovery script under spelling %d", cfg, n, depth, s1, s2))
	}
}

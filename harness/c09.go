package main

import (
	"encoding/json"
	"fmt"
	"os"
	"runtime"
	"strings"
	"sync"
	"sync/atomic"
	"time"

	kv "github.com/XiXi-2024/xixi-kv"
	"github.com/XiXi-2024/xixi-kv/verifrt/sched"
	"github.com/XiXi-2024/xixi-kv/verifrt/vtime"
)

// C09 — the public API is free of data races, panics and deadlocks under concurrent use.
// Decided inside the schedule enumeration with a -race build: the scheduler's baton is passed without
// creating happens-before edges, so the race detector sees exactly the program's own synchronisation.

var c09Calls = []Call{
	{K: "put", Key: "a"}, {K: "get", Key: "a"}, {K: "del", Key: "a"}, {K: "listkeys"}, {K: "fold"},
	{K: "iter"}, {K: "stat"}, {K: "sync"}, {K: "batch", Key: "a"}, {K: "merge"}, {K: "put", Key: "b"},
}

func isWriter(c Call) bool {
	switch c.K {
	case "put", "del", "batch", "merge", "sync":
		return true
	}
	return false
}

var c09DocumentedErr = map[string]bool{"nil": true}

func judgeC09(sc Scenario, ex *ExecResult) (clause, sig, detail string) {
	if ex.OpenErr != "" {
		return "", "", ""
	}
	switch ex.Sched.Abort {
	case sched.AbortDead:
		return "deadlock", "deadlock", "no thread is enabled but some have not finished (deadlock under this schedule)"
	case sched.AbortLive:
		return "livelock", "livelock", "the execution exceeded the schedule-point horizon"
	}
	for i, p := range ex.Sched.Panics {
		if p != "" {
			if i >= len(sc.Threads) { // not a thread: the harness's own final Commit of a shared batch
				return "panic", "panic:final-commit", "after the threads had finished: " + truncate(p, 1500)
			}
			return "panic", "panic:" + callKinds(sc.Threads[i]), fmt.Sprintf("thread %d panicked: %s", i, trimStack(p)+" :: "+firstLine(p))
		}
	}
	if ex.RaceN > 0 {
		rep := raceReport(raceCount() - ex.RaceN)
		return "data-race", "data-race:" + raceSig(rep), "the race detector reported:\n" + truncate(rep, 2500)
	}
	for _, c := range ex.Calls {
		if !c09DocumentedErr[c.Err] {
			return "internal-error", "internal-error:" + c.Call.K + ":" + c.Err, fmt.Sprintf("thread %d: %s returned %s although the call is individually valid", c.Thread, c.Call, c.Err)
		}
		if c.NilKey {
			return "listkeys-nil-key", "listkeys-nil-key", fmt.Sprintf("thread %d: ListKeys returned a nil key", c.Thread)
		}
	}
	if ex.Live != nil && ex.Live.Err != "" {
		return "quiescent-dump-error", "quiescent-dump-error", ex.Live.Err
	}
	return "", "", ""
}

func firstLine(s string) string {
	if i := strings.Index(s, "\n"); i >= 0 {
		return s[:i]
	}
	return s
}

func callKinds(cs []Call) string {
	var k []string
	for _, c := range cs {
		k = append(k, c.K)
	}
	return strings.Join(k, "+")
}

// raceInHarnessOnly: both conflicting accesses of the report were made by harness or shim code (top frame of each
// access stack in package main or verifrt): the memory is the harness's own, which only the two free-running passes
// ever touch from two goroutines.
func raceInHarnessOnly(rep string) bool {
	lines := strings.Split(rep, "\n")
	tops := 0
	for i, l := range lines {
		t := strings.TrimSpace(l)
		if (strings.HasPrefix(t, "Read at ") || strings.HasPrefix(t, "Write at ") || strings.HasPrefix(t, "Previous read at ") || strings.HasPrefix(t, "Previous write at ") ||
			strings.HasPrefix(t, "Atomic read at ") || strings.HasPrefix(t, "Atomic write at ") || strings.HasPrefix(t, "Previous atomic ")) && i+1 < len(lines) {
			top := strings.TrimSpace(lines[i+1])
			if !(strings.HasPrefix(top, "main.") || strings.Contains(top, "/verifrt/")) {
				return false
			}
			tops++
		}
	}
	return tops == 2
}

// raceSig extracts the two top repository frames of a race report (stable across schedules).
func raceSig(rep string) string {
	var fr []string
	for _, l := range strings.Split(rep, "\n") {
		l = strings.TrimSpace(l)
		if (strings.HasPrefix(l, "github.com/XiXi-2024/xixi-kv") || strings.HasPrefix(l, "github.com/google/btree") || strings.HasPrefix(l, "github.com/huandu")) && !strings.Contains(l, "verifrt") {
			name := l
			if i := strings.Index(name, "("); i > 0 && strings.HasSuffix(name, ")") {
				name = name[:strings.LastIndex(name, "(")]
			}
			name = strings.TrimPrefix(name, "github.com/XiXi-2024/xixi-kv")
			dup := false
			for _, f := range fr {
				if f == name {
					dup = true
				}
			}
			if !dup {
				fr = append(fr, name)
			}
			if len(fr) == 2 {
				break
			}
		}
	}
	return strings.Join(fr, "~")
}

// ---- the engine's own background goroutine (Options.EnableBackgroundMerge) ---------------------------------------
// The timer-driven goroutine is created by Open with a plain go statement and waits in a select on a ticker: the
// controlled scheduler does not own it. This level is the separate FREE-RUNNING pass under the race detector: the
// ticker period is shortened to 200 microseconds (seam in the time shim), a client issues a fixed script of calls
// while the goroutine merges, and every conflicting unsynchronised access pair that occurs is reported (the detector
// needs no particular interleaving for that, only that both accesses happen without a happens-before edge). It is not
// an exhaustive exploration and is not counted as one (evidence: free_running_executions).
// preflightLockModel runs the client script of a free-running pass once under the sequential lock model (a call that
// would block for ever on a lock its own goroutine holds panics there): a self-deadlock is reported at once instead of
// blocking the free-running pass for real until the watchdog kills the worker.
func preflightLockModel(cfg Cfg, keys []string, pre, script []Op) string {
	w := NewWorld(cfg, keys)
	defer w.Destroy()
	if err := w.Open(); err != nil {
		return ""
	}
	for _, op := range append(append([]Op{}, pre...), script...) {
		ar := w.Apply(op)
		if errClass(ar.Err) == "panic" {
			w.Dead = true // (Close would run into the same lock)
			return fmt.Sprintf("%s: %s", op, panicDetail(ar.Err))
		}
		if w.Dead || w.DB == nil {
			break
		}
	}
	return ""
}

func c09BackgroundMergeTask(cfg Cfg, rounds int) func(res *TaskResult) {
	return func(res *TaskResult) {
		beginExecution()
		script := []Op{{K: "put", Key: "a", VC: "S"}, {K: "put", Key: "b", VC: "L"}, {K: "del", Key: "a"}, {K: "put", Key: "a", VC: "L"},
			{K: "batch", Sub: []Op{{K: "put", Key: "b", VC: "S"}, {K: "del", Key: "a"}}}, {K: "sync"}, {K: "put", Key: "a", VC: "S"}}
		if d := preflightLockModel(cfg, keysAB, nil, append(append([]Op{}, script...), script...)); d != "" {
			res.Execs++
			res.Violations = append(res.Violations, Violation{Prop: "C09", Clause: "deadlock", Sig: "deadlock:client-script",
				Detail: fmt.Sprintf("cfg=%s the client script of the background-merge pass, run alone under the lock model: %s", cfg, d),
				Replay: mustJSON(map[string]any{"engine": "free-running", "property": "C09", "cfg": cfg, "rounds": rounds})})
			return
		}
		sched.SetMode(sched.ModeOff)
		vtime.TickerPeriod = 200 * time.Microsecond
		defer func() { vtime.TickerPeriod = 0; sched.SetMode(sched.ModeSeq) }()
		w := NewWorld(cfg, keysAB)
		w.BackgroundMerge = true
		defer w.Destroy()
		res.Execs++
		res.count("free_running_executions", 1)
		fail := func(clause, sig, detail string) {
			res.Violations = append(res.Violations, Violation{Prop: "C09", Clause: clause, Sig: sig,
				Detail: fmt.Sprintf("cfg=%s with EnableBackgroundMerge, client script of %d rounds (put, get, delete, batch, ListKeys, Stat, Sync) while the background goroutine merges\n%s", cfg, rounds, detail),
				Replay: mustJSON(map[string]any{"engine": "free-running", "property": "C09", "cfg": cfg, "rounds": rounds})})
		}
		if err := w.Open(); err != nil {
			res.Err = "background merge: open: " + panicDetail(err)
			return
		}
		for i := 0; i < rounds && !w.Dead; i++ {
			progressTick.Add(1)
			for _, op := range script {
				ar := w.Apply(op)
				res.Transitions++
				if ar.Err != nil || w.Dead {
					fail("background-merge", "background-merge:"+errClass(ar.Err), fmt.Sprintf("round %d %s: %s %s", i, op, errClass(ar.Err), panicDetail(ar.Err)))
					return
				}
			}
			if c, d := w.CheckReads(); c != "" {
				fail("background-merge", "background-merge:"+c, fmt.Sprintf("round %d: %s", i, d))
				return
			}
			time.Sleep(300 * time.Microsecond) // at least one tick per round
		}
		if ar := w.Apply(Op{K: "restart"}); ar.Err != nil || ar.Clause != "" {
			fail("background-merge", "background-merge:restart", "restart after the script: "+ar.Detail)
			return
		}
		if c, d := w.CheckReads(); c != "" {
			fail("background-merge", "background-merge:after-restart:"+c, d)
			return
		}
		w.Close()
		now := raceCount()
		if n := now - raceSeen; n > 0 {
			rep := raceReport(raceSeen)
			raceSeen = now
			fail("data-race", "data-race:"+raceSig(rep), "the race detector reported:\n"+truncate(rep, 2500))
			return
		}
		res.Nontrivial++
		res.States = append(res.States, hash64("background-merge", cfg.String()))
	}
}

// ---- two databases in one process ------------------------------------------------------------------------------
// Nothing in the engine may be shared between two DB instances of one process except what is synchronised (the
// buffer pools). Second FREE-RUNNING pass under the race detector: two databases in different directories, each
// with several data files of garbage, are driven by two goroutines at the same time (Merge, writes, a batch, every
// read path, Stat, Sync, a second Merge, the restart that adopts the merge through its hint file). Oracles: the
// race detector (a process-wide scratch buffer written by both is reported whatever the timing, since nothing
// orders the two goroutines), every reply against each database's own reference map, no error, no panic.
func c09TwoDatabasesTask(cfg Cfg, n int) func(res *TaskResult) {
	return func(res *TaskResult) {
		beginExecution()
		sched.SetMode(sched.ModeOff)
		defer sched.SetMode(sched.ModeSeq)
		defer runtime.GOMAXPROCS(runtime.GOMAXPROCS(4)) // the two drivers must really run in parallel
		res.Execs++
		res.count("free_running_executions", 1)
		var keys []string
		for i := 0; i < n; i++ {
			keys = append(keys, fmt.Sprintf("k%03d", i))
		}
		fail := func(clause, sig, detail string) {
			res.Violations = append(res.Violations, Violation{Prop: "C09", Clause: clause, Sig: sig,
				Detail: fmt.Sprintf("cfg=%s two databases in one process, %d keys each, driven by two goroutines at the same time (merge, put, delete, batch, reads, Stat, Sync, merge, restart)\n%s", cfg, n, detail),
				Replay: mustJSON(map[string]any{"engine": "free-running-two", "property": "C09", "cfg": cfg, "n": n})})
		}
		script := func(d int) []Op {
			return []Op{{K: "merge"}, {K: "put", Key: keys[d], VC: "S"}, {K: "del", Key: keys[2+d]},
				{K: "batch", Sub: []Op{{K: "put", Key: keys[4+d], VC: "S"}, {K: "del", Key: keys[6+d]}}}, {K: "sync"}, {K: "merge"},
				{K: "restart"}, {K: "put", Key: keys[8+d], VC: "S"}, {K: "merge"}, {K: "restart"},
				{K: "put", Key: keys[10+d], VC: "S"}, {K: "merge"}, {K: "merge"}, {K: "restart"}}
		}
		{
			var pre []Op
			for round := 0; round < 2; round++ {
				for i, k := range keys {
					pre = append(pre, Op{K: "put", Key: k, VC: "F", Arg: 9 + (i+round)%7})
				}
			}
			sched.SetMode(sched.ModeSeq)
			d := preflightLockModel(cfg, keys, pre, script(0))
			sched.SetMode(sched.ModeOff)
			if d != "" {
				res.Violations = append(res.Violations, Violation{Prop: "C09", Clause: "deadlock", Sig: "deadlock:client-script",
					Detail: fmt.Sprintf("cfg=%s the script of one driver of the two-database pass, run alone under the lock model: %s", cfg, d),
					Replay: mustJSON(map[string]any{"engine": "free-running-two", "property": "C09", "cfg": cfg, "n": n})})
				return
			}
		}
		var ws [2]*World
		for d := range ws {
			w := NewWorld(cfg, keys)
			defer w.Destroy()
			ws[d] = w
			if err := w.Open(); err != nil {
				res.Err = "two databases: open: " + panicDetail(err)
				return
			}
			for round := 0; round < 2; round++ {
				for i, k := range keys {
					if ar := w.Apply(Op{K: "put", Key: k, VC: "F", Arg: 9 + 13*d + (i+round)%7}); ar.Err != nil {
						res.Err = "two databases: preload: " + panicDetail(ar.Err)
						return
					}
				}
			}
		}
		bad := make([]string, 2)
		done := make(chan int, 2)
		// the two goroutines meet before every step, so that step i of both databases (in particular the Merges, the
		// restarts) really runs at the same time; whoever stops early releases the other
		steps := len(script(0))
		gates := make([]chan struct{}, steps)
		arrived := make([]atomic.Int32, steps)
		for i := range gates {
			gates[i] = make(chan struct{})
		}
		quit := make(chan struct{})
		var quitOnce sync.Once
		for d := range ws {
			go func(d int) {
				defer func() { quitOnce.Do(func() { close(quit) }); done <- d }()
				w := ws[d]
				for i, op := range script(d) {
					if arrived[i].Add(1) == 2 {
						close(gates[i])
					}
					select {
					case <-gates[i]:
					case <-quit:
					}
					var ar ApplyResult
					switch op.K { // (Apply touches process-wide harness seams - scan order, clock: not from two goroutines)
					case "merge":
						ar.Err = w.guard(func() error { return w.DB.Merge() })
					case "restart":
						if ar.Err = w.Close(); ar.Err == nil {
							ar.Err = w.guard(func() error {
								db, e := kv.Open(w.Cfg.options(w.Dir))
								if e == nil {
									w.DB = db
								}
								return e
							})
						}
					default:
						ar = w.Apply(op)
					}
					if ar.Err != nil || ar.Clause != "" || w.Dead {
						bad[d] = fmt.Sprintf("database %d step %d %s: %s %s %s", d, i, op, errClass(ar.Err), panicDetail(ar.Err), ar.Detail)
						return
					}
					if c, det := w.CheckReads(); c != "" {
						bad[d] = fmt.Sprintf("database %d after step %d %s: %s: %s", d, i, op, c, det)
						return
					}
				}
			}(d)
		}
		<-done
		<-done
		res.Transitions += 2 * int64(len(script(0)))
		for d := range ws {
			ws[d].Close()
		}
		now := raceCount()
		for i := raceSeen; i < now; i++ {
			rep := raceReport(i)
			if raceInHarnessOnly(rep) {
				res.count("harness_only_race_reports_ignored", 1) // both accesses made by the harness / the shims on their own state
				continue
			}
			raceSeen = now
			fail("data-race", "data-race:two-databases:"+raceSig(rep), "the race detector reported:\n"+truncate(rep, 2500))
			return
		}
		raceSeen = now
		for d := range bad {
			if bad[d] != "" {
				fail("two-databases", "two-databases", bad[d])
				return
			}
		}
		res.Nontrivial++
		res.States = append(res.States, hash64("two-databases", cfg.String()))
	}
}

func c09Tasks(tier string) []Task {
	pbPairs, pbTriples := 2, 1
	if tier == "thorough" {
		pbPairs, pbTriples = 3, 2
	}
	var cfgs []Cfg
	for _, ix := range []int8{1, 2, 3} {
		c := defaultCfg
		c.Index = ix
		c.FileSize = 1 << 20 // one file
		cfgs = append(cfgs, c)
		r := c
		r.FileSize = 64 // every record rotates: rotations happen during the run
		cfgs = append(cfgs, r)
	}
	init := []Op{{K: "put", Key: "a", VC: "S"}, {K: "put", Key: "b", VC: "S"}, {K: "put", Key: "a", VC: "S"}}
	var tasks []Task
	add := func(level string, ts [][]Call, pb int) {
		for _, cfg := range cfgs {
			cfg := cfg
			sc := Scenario{Cfg: cfg, Init: init, Threads: ts}
			tasks = append(tasks, Task{Level: level, Name: sc.String(), Fn: func(res *TaskResult) { c09RunScenario(sc, pb, res) }})
		}
	}
	for _, m := range multisets(len(c09Calls), 2) {
		add(fmt.Sprintf("pairs-pb%d", pbPairs), [][]Call{{c09Calls[m[0]]}, {c09Calls[m[1]]}}, pbPairs)
	}
	if pbTriples > -2 {
		for _, m := range multisets(len(c09Calls), 3) {
			ts := [][]Call{{c09Calls[m[0]]}, {c09Calls[m[1]]}, {c09Calls[m[2]]}}
			w := false
			for _, t := range ts {
				w = w || isWriter(t[0])
			}
			if w {
				add(fmt.Sprintf("triples-pb%d", pbTriples), ts, pbTriples)
			}
		}
	}
	// one Batch shared by 2-3 goroutines (the Batch has its own lock: it is meant to be used like that)
	bcalls := []Call{{K: "bput", Key: "a"}, {K: "bput", Key: "b"}, {K: "bdel", Key: "a"}, {K: "bget", Key: "a"}, {K: "bcommit"}}
	for _, k := range []int{2, 3} {
		for _, m := range multisets(len(bcalls), k) {
			var ts [][]Call
			for _, i := range m {
				ts = append(ts, []Call{bcalls[i]})
			}
			for _, cfg := range []Cfg{cfgs[0], cfgs[5]} {
				sc := Scenario{Cfg: cfg, Init: init, Threads: ts, SharedBatch: true}
				pb := -1
				if k == 3 {
					pb = 3
				}
				tasks = append(tasks, Task{Level: fmt.Sprintf("shared-batch-%d", k), Name: sc.String(), Fn: func(res *TaskResult) { c09RunScenario(sc, pb, res) }})
			}
		}
	}
	rounds := 40
	if tier == "thorough" {
		rounds = 400
	}
	bm := append([]Cfg{}, cfgs...)
	for _, fs := range []int64{64, 1 << 20} {
		c := defaultCfg
		c.IO, c.FileSize = 1, fs // memory-mapped: Close unmaps the files a running merge reads
		bm = append(bm, c)
	}
	for _, cfg := range bm {
		tasks = append(tasks, Task{Level: "background-merge-free-running", Name: "background merge " + cfg.String(), Fn: c09BackgroundMergeTask(cfg, rounds)})
	}
	for _, ix := range []int8{1, 2, 3} {
		for _, io := range []byte{0, 1} {
			c := defaultCfg
			c.Index, c.IO, c.FileSize = ix, io, 2048
			tasks = append(tasks, Task{Level: "two-databases-free-running", Name: "two databases " + c.String(), Fn: c09TwoDatabasesTask(c, 400)})
		}
	}
	return tasks
}

func c09RunScenario(sc Scenario, pb int, res *TaskResult) {
	outcomes := map[uint64]bool{}
	known := 0
	n, complete := exploreSchedules(func(prefix []int8) *ExecResult {
		announce(func() string { return fmt.Sprintf("%s schedule %v", sc, prefix) })
		return runScenario(sc, prefix, false)
	}, pb, 50000, func(ex *ExecResult, prefix []int8) bool {
		res.Execs++
		if ex.Sched != nil {
			res.Transitions += ex.Sched.Points
		}
		if ex.OpenErr != "" {
			res.count("setup_failed", 1)
			return true
		}
		if ex.Sched.Abort == sched.AbortDiv {
			res.Err = fmt.Sprintf("replay divergence in %s prefix %v", sc, prefix)
			return false
		}
		res.Evals++
		c, sig, d := judgeC09(sc, ex)
		if c != "" {
			v := &Violation{Prop: "C09", Clause: c, Sig: sig,
				Detail: fmt.Sprintf("scenario %s\nschedule: %s\n%s", sc, describeSchedule(ex), d),
				Replay: mustJSON(schedReplay{Engine: "sched-race", Prop: "C09", Scenario: sc, Schedule: append([]int8{}, ex.Sched.Choices...), Text: sc.String()})}
			if c != "data-race" {
				// the same schedule must fail again (a race is reported once per process by the detector)
				ex2 := runScenario(sc, ex.Sched.Choices, false)
				if c2, _, _ := judgeC09(sc, ex2); c2 != c && c2 != "data-race" {
					res.Err = fmt.Sprintf("non-reproducible %s in %s schedule %v", c, sc, ex.Sched.Choices)
					return false
				}
			}
			if isKnown(v) {
				addViolation(res, v)
				known++
				return known < 50 // keep exploring a little past known findings
			}
			res.Violations = append(res.Violations, *v)
			return false
		}
		var hs []string
		for _, cr := range ex.Calls {
			hs = append(hs, fmt.Sprintf("%d%s%s%v%s", cr.Thread, cr.Call, cr.Val, cr.Found, cr.Extra))
		}
		h := hash64(hs...)
		if !outcomes[h] {
			outcomes[h] = true
			res.States = append(res.States, hash64(sc.String(), fmt.Sprint(h)))
			res.Outcomes = append(res.Outcomes, hash64(sc.String(), fmt.Sprint(h)))
		}
		return true
	})
	if !complete {
		res.Partial = true
	}
	if len(outcomes) > 1 {
		res.Nontrivial++
	}
	res.count("max:schedules_per_scenario", int64(n))
	if len(res.Samples) == 0 {
		res.Samples = append(res.Samples, fmt.Sprintf("%s: %d schedules, %d distinct outcomes, race build=%v", sc, n, len(outcomes), raceBuild))
	}
}

func init() {
	register(&Check{
		Prop:   "C09",
		Engine: "sched",
		Procs:  1,
		Race:   true,
		Rule:   "all unordered pairs and all triples containing a writer of the calls {Put Get Delete ListKeys Fold iterator-scan Stat Sync Batch(put;commit) Merge} on overlapping keys x index type x {one file; every record rotates} are explored under the controlled scheduler up to the preemption bound, in a -race build whose baton hand-off creates no happens-before edge; per schedule: no race report, no panic, no deadlock/livelock, no internal error from an individually valid call, no nil key from ListKeys. Separately (level background-merge-free-running, NOT an exploration: counted as free_running_executions): Options.EnableBackgroundMerge with the ticker shortened to 200 microseconds, a fixed client script next to the engine's own merge goroutine, free-running under the race detector, final mapping compared with the model across a restart. states = distinct (scenario, outcome) pairs; non-trivial = scenarios with more than one outcome. Second free-running pass (two-databases-free-running): two databases in different directories of one process driven by two goroutines at the same time through Merge, writes, a batch, every read path, Sync and the adopting restart, under the race detector and each database's own reference map (nothing but the synchronised buffer pools may be shared between instances)",
		Assumptions: []string{
			"the race detector sees only the enumerated executions and reports each distinct race once per process",
			"2-3 goroutines, one call each (the quantifier's 16 is not reached)",
			"the goroutine started by Open for EnableBackgroundMerge (plain go statement, select on a ticker) is not owned by the scheduler: its accesses are only seen by the free-running pass",
			"third-party index code is instrumented by -race, assembly is not",
		},
		Tasks: c09Tasks,
		Bounds: func(tier string) map[string]any {
			if tier == "quick" {
				return map[string]any{"pairs": len(multisets(len(c09Calls), 2)), "triples": "all with a writer", "preemption_bound_pairs": 2, "preemption_bound_triples": 1, "configs": 6}
			}
			return map[string]any{"pairs": len(multisets(len(c09Calls), 2)), "triples": "all with a writer", "preemption_bound_pairs": 3, "preemption_bound_triples": 2, "configs": 6}
		},
		Replay: func(raw json.RawMessage) {
			var fr struct {
				Engine string `json:"engine"`
				Cfg    Cfg    `json:"cfg"`
				Rounds int    `json:"rounds"`
				N      int    `json:"n"`
			}
			json.Unmarshal(raw, &fr)
			if fr.Engine == "free-running" || fr.Engine == "free-running-two" {
				// a free-running pass is re-run, not replayed: the race detector's verdict does not depend on the timing
				var res TaskResult
				if fr.Engine == "free-running" {
					c09BackgroundMergeTask(fr.Cfg, fr.Rounds)(&res)
				} else {
					c09TwoDatabasesTask(fr.Cfg, fr.N)(&res)
				}
				if len(res.Violations) > 0 {
					fmt.Printf("VIOLATION clause=%s\n%s\n", res.Violations[0].Clause, res.Violations[0].Detail)
					os.Exit(1)
				}
				fmt.Println("no violation on this tree (race build:", raceBuild, ")", res.Err)
				return
			}
			var r schedReplay
			json.Unmarshal(raw, &r)
			ex := runScenario(r.Scenario, r.Schedule, false)
			fmt.Println("scenario:", r.Scenario)
			fmt.Println("schedule:", describeSchedule(ex))
			if c, _, d := judgeC09(r.Scenario, ex); c != "" {
				fmt.Printf("VIOLATION clause=%s\n%s\n", c, d)
				os.Exit(1)
			}
			fmt.Println("no violation on this tree (race build:", raceBuild, ")")
		},
	})
}

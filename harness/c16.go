package main

import (
	"bufio"
	"bytes"
	"crypto/sha256"
	"encoding/json"
	"errors"
	"fmt"
	"os"
	"os/exec"
	"path/filepath"
	"runtime"
	"runtime/debug"
	"strings"

	kv "github.com/XiXi-2024/xixi-kv"
	"github.com/XiXi-2024/xixi-kv/verifrt/iorec"
	"github.com/XiXi-2024/xixi-kv/verifrt/sched"
)

// C16 — a data directory has at most one open database at a time.

// ---- clients -------------------------------------------------------------------------------------

// client abstracts "someone who may open the directory": an in-process handle or a child process.
type client interface {
	Open(dir string) string // error class ("nil" = success)
	Close() string
	Work(what string) string // the holder uses its handle: "write" (Put, batch, empty batch, Sync) or "merge"
	IsOpen() bool
	Kill()
}

type inprocClient struct {
	db    *kv.DB
	stale *kv.DB // the handle this client closed last (a caller may still hold it)
	dir   string
}

// failedRead: the holder writes one more record, the last byte of the active file is damaged under the open handle,
// the record is read (the read fails - or not, that is C12's business), and the byte is put back. A read that failed
// must not keep anything locked: the Close that follows has to return and give the directory up.
func (c *inprocClient) failedRead(db *kv.DB) error {
	if err := db.Put([]byte("r"), []byte("read-me-back")); err != nil {
		return err
	}
	ents, _ := os.ReadDir(c.dir)
	newest := ""
	for _, e := range ents {
		if strings.HasSuffix(e.Name(), ".data") && e.Name() > newest {
			newest = e.Name()
		}
	}
	if newest == "" {
		return nil
	}
	f, err := os.OpenFile(filepath.Join(c.dir, newest), os.O_RDWR, 0)
	if err != nil {
		return nil
	}
	defer f.Close()
	st, _ := f.Stat()
	if st == nil || st.Size() == 0 {
		return nil
	}
	var b [1]byte
	f.ReadAt(b[:], st.Size()-1)
	f.WriteAt([]byte{b[0] ^ 0x55}, st.Size()-1)
	db.Get([]byte("r"))
	f.WriteAt(b[:], st.Size()-1)
	return nil
}

func (c *inprocClient) Open(dir string) string {
	o := defaultCfg.options(dir)
	var db *kv.DB
	var err error
	func() {
		defer func() {
			if r := recover(); r != nil {
				err = fmt.Errorf("panic: %v", r)
			}
		}()
		db, err = kv.Open(o)
	}()
	if err == nil {
		c.db = db
		c.dir = dir
	}
	return procErrClass(err)
}

func (c *inprocClient) Close() string {
	db := c.db
	c.db = nil
	c.stale = db
	var err error
	func() {
		defer func() {
			if r := recover(); r != nil {
				err = fmt.Errorf("panic: %v", r)
			}
		}()
		err = db.Close()
	}()
	return procErrClass(err)
}

// Work: the holder goes about its business between the Opens of the others (nothing it does may let go of the
// directory): "write" = Put, a committed batch, a batch committed empty, Sync; "merge" = overwrite + Merge.
func (c *inprocClient) Work(what string) string {
	db := c.db
	if what == "stalemerge" || what == "stalewrite" {
		db = c.stale // a call on a handle that was closed: whatever it returns, it must return and touch nothing
	}
	if db == nil {
		return "not-open"
	}
	var err error
	func() {
		defer func() {
			if r := recover(); r != nil {
				err = fmt.Errorf("panic: %v", r)
			}
		}()
		first := func(es ...error) error {
			for _, e := range es {
				if e != nil {
					return e
				}
			}
			return nil
		}
		switch what {
		case "write":
			e1 := db.Put([]byte("a"), []byte("w1"))
			b := db.NewBatch(kv.BatchOptions{})
			e2 := b.Put([]byte("b"), []byte("w2"))
			e3 := b.Commit()
			e4 := db.NewBatch(kv.BatchOptions{}).Commit()
			e5 := db.Sync()
			_, e6 := db.Get([]byte("a"))
			e7 := c.failedRead(db)
			err = first(e1, e2, e3, e4, e5, e6, e7)
		case "merge":
			e1 := db.Put([]byte("a"), []byte("m1"))
			e2 := db.Put([]byte("a"), []byte("m2"))
			e3 := db.Merge()
			err = first(e1, e2, e3)
		case "stalemerge":
			if e := db.Merge(); e != nil && strings.HasPrefix(e.Error(), "panic") {
				err = e
			}
		case "stalewrite":
			// late writes through the closed handle: a small record, and one that needs a new data file. Errors and even
			// panics are the caller's problem (use after Close) - what is judged is the directory
			for _, v := range [][]byte{[]byte("late"), bytes.Repeat([]byte("L"), 200)} {
				func() {
					defer func() { recover() }()
					db.Put([]byte("a"), v)
				}()
			}
		}
	}()
	return procErrClass(err)
}
func (c *inprocClient) IsOpen() bool { return c.db != nil }
func (c *inprocClient) Kill()        {}

func procErrClass(err error) string {
	switch {
	case err == nil:
		return "nil"
	case errors.Is(err, kv.ErrDatabaseIsUsing):
		return "ErrDatabaseIsUsing"
	case strings.HasPrefix(err.Error(), "panic"):
		return "panic"
	}
	return "other-error"
}

// childClient drives a real child process (same binary, -procclient) over pipes.
type childClient struct {
	cmd  *exec.Cmd
	in   *bufio.Writer
	out  *bufio.Reader
	open bool
}

func newChildClient() (*childClient, error) {
	self, _ := os.Executable()
	cmd := exec.Command(self, "-procclient")
	cmd.Env = append(os.Environ(), "GOGC=off", "GOMAXPROCS=1")
	cmd.Stderr = os.Stderr
	stdin, err := cmd.StdinPipe()
	if err != nil {
		return nil, err
	}
	stdout, err := cmd.StdoutPipe()
	if err != nil {
		return nil, err
	}
	if err := cmd.Start(); err != nil {
		return nil, err
	}
	return &childClient{cmd: cmd, in: bufio.NewWriter(stdin), out: bufio.NewReader(stdout)}, nil
}

func (c *childClient) rpc(line string) string {
	fmt.Fprintln(c.in, line)
	if err := c.in.Flush(); err != nil {
		return "child-died"
	}
	resp, err := c.out.ReadString('\n')
	if err != nil {
		return "child-died"
	}
	return strings.TrimSpace(resp)
}

func (c *childClient) Open(dir string) string {
	r := c.rpc("open " + dir)
	if r == "nil" {
		c.open = true
	}
	return r
}
func (c *childClient) Close() string {
	c.open = false
	return c.rpc("close")
}
func (c *childClient) Work(what string) string { return c.rpc("work " + what) }
func (c *childClient) IsOpen() bool            { return c.open }
func (c *childClient) Kill() {
	if c.cmd.Process != nil {
		c.cmd.Process.Kill()
	}
	c.cmd.Wait()
}

// procClientMain is the child-process side.
func procClientMain() {
	debug.SetGCPercent(-1) // a leaked lock descriptor must not be released by a finalizer at a random moment
	sched.SetMode(sched.ModeSeq)
	in := bufio.NewReader(os.Stdin)
	c := &inprocClient{}
	for {
		line, err := in.ReadString('\n')
		if err != nil {
			return
		}
		f := strings.Fields(line)
		if len(f) == 0 {
			continue
		}
		switch f[0] {
		case "open":
			fmt.Println(c.Open(f[1]))
		case "close":
			if c.IsOpen() {
				fmt.Println(c.Close())
			} else {
				fmt.Println("not-open")
			}
		case "work":
			if c.IsOpen() || f[1] == "stalemerge" || f[1] == "stalewrite" {
				fmt.Println(c.Work(f[1]))
			} else {
				fmt.Println("not-open")
			}
		case "quit":
			return
		}
	}
}

// ---- events and model -------------------------------------------------------------------------------

type procEvent struct {
	K string `json:"k"` // open close corrupt repair
	C int    `json:"c"` // client
}

func (e procEvent) String() string {
	if e.K == "open" || e.K == "close" || e.K == "write" || e.K == "merge" || e.K == "stalemerge" || e.K == "stalewrite" {
		return fmt.Sprintf("%s%d", e.K, e.C)
	}
	return e.K
}

func dirFingerprint(dir string) string {
	ents, _ := os.ReadDir(dir)
	h := sha256.New()
	for _, e := range ents {
		data, _ := os.ReadFile(filepath.Join(dir, e.Name()))
		fmt.Fprintf(h, "%s:%d:", e.Name(), len(data))
		h.Write(data)
	}
	return fmt.Sprintf("%x", h.Sum(nil)[:8])
}

// runProcSeq executes one event sequence with the given clients; returns (transcript, violation).
func runProcSeq(clients []client, evs []procEvent, root string, res *TaskResult) (string, string) {
	dir := filepath.Join(root, "db")
	os.RemoveAll(root)
	os.MkdirAll(root, 0o755)
	// pre-populate through a throw-away in-process handle
	{
		db, err := kv.Open(defaultCfg.options(dir))
		if err != nil {
			return "", "setup: " + err.Error()
		}
		db.Put([]byte("a"), []byte("1"))
		db.Put([]byte("b"), []byte("2"))
		if err := db.Close(); err != nil {
			return "", "setup: " + err.Error()
		}
	}
	dataFile := filepath.Join(dir, "000000000.data")
	var orig []byte
	target := dataFile
	holder, corrupt := -1, false
	var tr []string
	for i, ev := range evs {
		res.Transitions++
		switch ev.K {
		case "corrupt":
			// a merge that is finished and not yet adopted: the damage goes into its hint file (read by the adopting Open
			// only); otherwise into the first record of the first data file
			target = dataFile
			if _, err := os.Stat(filepath.Join(dir+"-merge", "000000000.merge-finished")); err == nil {
				if st, err := os.Stat(filepath.Join(dir+"-merge", "000000000.hint")); err == nil && st.Size() > 10 {
					target = filepath.Join(dir+"-merge", "000000000.hint")
				}
			}
			orig, _ = os.ReadFile(target) // as the last holder left it
			bad := append([]byte(nil), orig...)
			bad[9] ^= 0x40 // inside the FIRST record (valid data follows: not a torn tail, Open must fail)
			os.WriteFile(target, bad, 0o644)
			corrupt = true
			tr = append(tr, "corrupt:"+filepath.Base(target))
		case "repair":
			// a failed adopting Open may already have moved the hint file into the data directory
			moved := filepath.Join(dir, filepath.Base(target))
			if _, err := os.Stat(target); err != nil && filepath.Ext(target) == ".hint" {
				if _, err2 := os.Stat(moved); err2 == nil {
					target = moved
				}
			}
			os.WriteFile(target, orig, 0o644)
			corrupt = false
			tr = append(tr, "repair")
		case "open":
			before := dirFingerprint(dir)
			r := clients[ev.C].Open(dir)
			tr = append(tr, fmt.Sprintf("open%d=%s", ev.C, r))
			res.Evals++
			switch {
			case holder >= 0:
				if r != "ErrDatabaseIsUsing" {
					return strings.Join(tr, " "), fmt.Sprintf("event %d %s: client %d holds the directory but Open by client %d returned %s (want ErrDatabaseIsUsing)", i, ev, holder, ev.C, r)
				}
				if after := dirFingerprint(dir); after != before {
					return strings.Join(tr, " "), fmt.Sprintf("event %d %s: a rejected Open changed the directory contents", i, ev)
				}
			case corrupt && filepath.Ext(target) == ".hint" && r == "nil":
				// a damaged hint file makes the ADOPTING Open fail; the merge is adopted by then, and the next Open does not
				// read the hint any more: it may succeed. The model keeps treating the directory as damaged until Repair, so
				// the handle is given back at once
				if cr := clients[ev.C].Close(); cr != "nil" {
					return strings.Join(tr, " "), fmt.Sprintf("event %d %s: Close returned %s", i, ev, cr)
				}
			case corrupt:
				if r == "nil" || r == "panic" {
					return strings.Join(tr, " "), fmt.Sprintf("event %d %s: Open of a directory with a damaged data file returned %s", i, ev, r)
				}
				if r == "ErrDatabaseIsUsing" {
					return strings.Join(tr, " "), fmt.Sprintf("event %d %s: nobody holds the directory but Open returned ErrDatabaseIsUsing (a failed Open leaked the lock)", i, ev)
				}
			default:
				if r != "nil" {
					why := ""
					if r == "ErrDatabaseIsUsing" {
						why = " (the lock was not released by an earlier Close or failed Open)"
					}
					return strings.Join(tr, " "), fmt.Sprintf("event %d %s: nobody holds the (repaired) directory but Open returned %s%s", i, ev, r, why)
				}
				holder = ev.C
			}
		case "write", "merge":
			r := clients[ev.C].Work(ev.K)
			tr = append(tr, fmt.Sprintf("%s%d=%s", ev.K, ev.C, r))
			if r != "nil" {
				return strings.Join(tr, " "), fmt.Sprintf("event %d %s: the holder's own calls failed: %s", i, ev, r)
			}
		case "stalemerge", "stalewrite":
			// a handle that was closed is used again (a timer-driven merge firing late, a caller's mistake): the call may
			// fail any way it likes but must return, and must leave the directory - which may belong to somebody else by
			// now - exactly as it is
			before := dirFingerprint(dir) + "|" + dirFingerprint(dir+"-merge")
			r := clients[ev.C].Work(ev.K)
			tr = append(tr, fmt.Sprintf("%s%d=%s", ev.K, ev.C, r))
			if r == "panic" {
				return strings.Join(tr, " "), fmt.Sprintf("event %d %s: Merge on a closed handle panicked or never returned (under the lock model a call that blocks for ever panics)", i, ev)
			}
			if after := dirFingerprint(dir) + "|" + dirFingerprint(dir+"-merge"); after != before {
				return strings.Join(tr, " "), fmt.Sprintf("event %d %s: a call on a closed handle changed the directory contents", i, ev)
			}
		case "close":
			r := clients[ev.C].Close()
			tr = append(tr, fmt.Sprintf("close%d=%s", ev.C, r))
			if r != "nil" {
				return strings.Join(tr, " "), fmt.Sprintf("event %d %s: Close returned %s", i, ev, r)
			}
			holder = -1
		}
	}
	// leave everything closed
	for _, c := range clients {
		if c.IsOpen() {
			c.Close()
		}
	}
	return strings.Join(tr, " "), ""
}

// enumProcSeqs enumerates all event sequences of length depth that are meaningful for the model.
func enumProcSeqs(nClients, depth int, visit func(evs []procEvent) bool) {
	var evs []procEvent
	merged := func() bool { // after a Merge the first data file is replaced at the next Open (and then read through the hint only)
		for _, e := range evs {
			if e.K == "merge" {
				return true
			}
		}
		return false
	}
	// mergePending: a Merge has finished and no Open has adopted it yet (the hint file is read by that Open only)
	mergePending := func() bool {
		holder, corrupt, pending := -1, false, false
		for _, e := range evs {
			switch e.K {
			case "open":
				if holder < 0 && !corrupt {
					holder, pending = e.C, false
				}
			case "close":
				holder = -1
			case "merge":
				pending = true
			case "corrupt", "repair":
				corrupt = !corrupt
			}
		}
		return pending
	}
	closedOnce := func(c int) bool {
		for _, e := range evs {
			if e.K == "close" && e.C == c {
				return true
			}
		}
		return false
	}
	var rec func(holder int, corrupt bool, opened []bool) bool
	rec = func(holder int, corrupt bool, opened []bool) bool {
		if len(evs) == depth {
			return visit(evs)
		}
		for c := 0; c < nClients; c++ {
			if !opened[c] && closedOnce(c) && len(evs) < depth-1 && !strings.HasPrefix(evs[len(evs)-1].K, "stale") {
				for _, k := range []string{"stalemerge", "stalewrite"} {
					evs = append(evs, procEvent{k, c})
					ok := rec(holder, corrupt, opened)
					evs = evs[:len(evs)-1]
					if !ok {
						return false
					}
				}
			}
			if !opened[c] {
				// Open_c
				evs = append(evs, procEvent{"open", c})
				h2 := holder
				op2 := append([]bool{}, opened...)
				if holder < 0 && !corrupt {
					h2 = c
					op2[c] = true
				}
				ok := rec(h2, corrupt, op2)
				evs = evs[:len(evs)-1]
				if !ok {
					return false
				}
			} else {
				evs = append(evs, procEvent{"close", c})
				op2 := append([]bool{}, opened...)
				op2[c] = false
				ok := rec(-1, corrupt, op2)
				evs = evs[:len(evs)-1]
				if !ok {
					return false
				}
				// the holder uses its handle (never as the last event: what matters is what the others see next)
				if len(evs) < depth-1 {
					for _, k := range []string{"write", "merge"} {
						evs = append(evs, procEvent{k, c})
						ok := rec(holder, corrupt, opened)
						evs = evs[:len(evs)-1]
						if !ok {
							return false
						}
					}
				}
			}
		}
		if holder < 0 && (corrupt || !merged() || mergePending()) {
			k := "corrupt"
			if corrupt {
				k = "repair"
			}
			evs = append(evs, procEvent{k, 0})
			ok := rec(holder, !corrupt, opened)
			evs = evs[:len(evs)-1]
			if !ok {
				return false
			}
		}
		return true
	}
	rec(-1, false, make([]bool, nClients))
}

var procSeq int

func c16ProcTask(nClients, depth int, children bool) func(res *TaskResult) {
	return func(res *TaskResult) {
		debug.SetGCPercent(-1)
		defer debug.SetGCPercent(400)
		beginExecution() // ModeSeq: a call that would block for ever (a lock nobody will release) panics instead
		mk := func(child bool) ([]client, error) {
			var cs []client
			for i := 0; i < nClients; i++ {
				if child {
					c, err := newChildClient()
					if err != nil {
						return nil, err
					}
					cs = append(cs, c)
				} else {
					cs = append(cs, &inprocClient{})
				}
			}
			return cs, nil
		}
		inproc, _ := mk(false)
		var kids []client
		if children {
			var err error
			if kids, err = mk(true); err != nil {
				res.Err = "cannot start child processes: " + err.Error()
				return
			}
			defer func() {
				for _, k := range kids {
					k.Kill()
				}
			}()
		}
		states := map[uint64]bool{}
		enumProcSeqs(nClients, depth, func(evs []procEvent) bool {
			procSeq++
			progressTick.Add(1)
			announce(func() string { return fmt.Sprint(evs) })
			res.Execs++
			root := filepath.Join(scratchRoot(), fmt.Sprintf("proc%d", procSeq))
			defer os.RemoveAll(root)
			mkViol := func(mode, tr, d string) {
				res.Violations = append(res.Violations, Violation{Prop: "C16", Clause: "exclusion", Sig: "exclusion:" + mode + ":" + classifyProc(d),
					Detail: fmt.Sprintf("%d clients (%s), events %v\ntranscript: %s\n%s", nClients, mode, evs, tr, d),
					Replay: mustJSON(map[string]any{"engine": "proc", "property": "C16", "clients": nClients, "children": mode == "child-processes", "events": evs})})
			}
			if procSeq%100 == 0 {
				// between sequences nobody holds anything: let finalizers close descriptors leaked by failed Opens
				// (data files opened before the failure are never closed by Open itself), else EMFILE
				runtime.GC()
				runtime.GC()
			}
			tr1, v1 := runProcSeq(inproc, evs, root, res)
			if strings.HasPrefix(v1, "setup:") {
				res.Err = "C16 harness: " + v1
				return false
			}
			if v1 != "" {
				mkViol("in-process", tr1, v1)
				// a leaked lock poisons the process: fresh clients (the descriptors stay leaked, directories differ)
				inproc, _ = mk(false)
				return false
			}
			states[hash64(tr1)] = true
			if children {
				res.Execs++
				tr2, v2 := runProcSeq(kids, evs, root+"c", res)
				os.RemoveAll(root + "c")
				if v2 != "" {
					mkViol("child-processes", tr2, v2)
					return false
				}
				if tr1 != tr2 {
					mkViol("child-processes", tr2, "in-process transcript and child-process transcript differ:\n in-process: "+tr1+"\n children:   "+tr2)
					return false
				}
				res.count("transcripts_agreeing_with_child_processes", 1)
			}
			if strings.Contains(tr1, "ErrDatabaseIsUsing") && strings.Contains(tr1, "other-error") {
				res.Nontrivial++
			}
			return true
		})
		for h := range states {
			res.States = append(res.States, h)
		}
		res.Samples = append(res.Samples, fmt.Sprintf("all event sequences of length %d over Open_i/Close_i/Corrupt/Repair for %d clients (children=%v)", depth, nClients, children))
	}
}

func classifyProc(d string) string {
	switch {
	case strings.Contains(d, "leaked the lock"), strings.Contains(d, "not released"):
		return "lock-not-released"
	case strings.Contains(d, "holds the directory but Open"):
		return "double-open"
	case strings.Contains(d, "changed the directory"):
		return "rejected-open-touched-directory"
	case strings.Contains(d, "transcript"):
		return "inproc-vs-children"
	}
	return "other"
}

// ---- racing Opens on a fresh directory (SCHED, I/O calls are schedule points) ----------------------

func c16RaceTask(nThreads, pb int, prepopulated bool) func(res *TaskResult) {
	return c16RaceTaskH(nThreads, pb, prepopulated, false)
}

// c16RaceTaskH: withHolder adds a thread that holds the directory open and Closes it while the others Open.
// c16RaceTaskHF: as c16RaceTaskH with a holder, whose Close additionally races one of its OWN calls in flight (a Fold
// over two keys, a Put): Close must still return and release the directory.
func c16RaceTaskHF(nThreads, pb int, busy string) func(res *TaskResult) {
	inner := c16RaceTaskH(nThreads, pb, true, true)
	return func(res *TaskResult) {
		c16HolderBusy = busy
		defer func() { c16HolderBusy = "" }()
		inner(res)
	}
}

var c16HolderBusy string

func c16RaceTaskH(nThreads, pb int, prepopulated, withHolder bool) func(res *TaskResult) {
	return func(res *TaskResult) {
		debug.SetGCPercent(-1)
		defer debug.SetGCPercent(400)
		outcomes := map[string]bool{}
		run := func(prefix []int8) *ExecResult {
			beginExecution()
			procSeq++
			root := filepath.Join(scratchRoot(), fmt.Sprintf("race%d", procSeq))
			os.MkdirAll(root, 0o755)
			defer os.RemoveAll(root)
			dir := filepath.Join(root, "db")
			if prepopulated {
				db, err := kv.Open(defaultCfg.options(dir))
				if err != nil {
					return &ExecResult{OpenErr: err.Error()}
				}
				db.Put([]byte("a"), []byte("1"))
				db.Put([]byte("b"), []byte("2"))
				db.Close()
			}
			ex := &ExecResult{}
			dbs := make([]*kv.DB, nThreads)
			errs := make([]string, nThreads)
			fns := make([]func(), nThreads)
			for i := range fns {
				i := i
				fns[i] = func() {
					db, err := kv.Open(defaultCfg.options(dir))
					dbs[i], errs[i] = db, procErrClass(err)
				}
			}
			if withHolder {
				hdb, err := kv.Open(defaultCfg.options(dir))
				if err != nil {
					return &ExecResult{OpenErr: err.Error()}
				}
				fns = append(fns, func() { hdb.Close() })
				switch c16HolderBusy {
				case "fold":
					fns = append(fns, func() {
						defer func() { recover() }() // what a call racing Close returns is not judged here
						hdb.Fold(func(k, v []byte) bool { return true })
					})
				case "put":
					fns = append(fns, func() {
						defer func() { recover() }()
						hdb.Put([]byte("a"), []byte("busy"))
					})
				}
			}
			iorec.SchedPoints = true
			ex.Sched = sched.Run(prefix, fns...)
			iorec.SchedPoints = false
			sched.SetMode(sched.ModeSeq)
			for i := range errs {
				ex.Calls = append(ex.Calls, CallRec{Thread: i, Err: errs[i]})
			}
			for _, db := range dbs {
				if db != nil {
					func() { defer func() { recover() }(); db.Close() }()
				}
			}
			return ex
		}
		n, complete := exploreSchedules(run, pb, 300000, func(ex *ExecResult, prefix []int8) bool {
			res.Execs++
			if ex.OpenErr != "" {
				return true
			}
			res.Transitions += ex.Sched.Points
			res.Evals++
			ok, using := 0, 0
			var es []string
			for _, c := range ex.Calls {
				es = append(es, c.Err)
				switch c.Err {
				case "nil":
					ok++
				case "ErrDatabaseIsUsing":
					using++
				}
			}
			out := strings.Join(es, ",")
			outcomes[out] = true
			bad := ""
			switch {
			case ex.Sched.Abort == sched.AbortDiv:
				res.Err = "replay divergence in racing-Open scenario"
				return false
			case ex.Sched.Abort != sched.AbortNone:
				bad = "deadlock / livelock among racing Opens (with a holder: its Close never returns, the directory stays locked)"
			case ok > 1:
				bad = fmt.Sprintf("%d racing Opens of one directory all succeeded", ok)
			case ok+using != len(ex.Calls):
				bad = "a racing Open failed with an error other than ErrDatabaseIsUsing: " + out
			case ok == 0 && !withHolder:
				bad = "every racing Open was rejected: " + out
			}
			for _, p := range ex.Sched.Panics {
				if p != "" {
					bad = "panic in a racing Open: " + firstLine(p)
				}
			}
			if bad != "" {
				res.Violations = append(res.Violations, Violation{Prop: "C16", Clause: "racing-opens", Sig: "racing-opens:" + firstWord(bad),
					Detail: fmt.Sprintf("%d goroutines open the same %s directory (holder closing concurrently: %v)\nschedule: %s\n%s", nThreads, map[bool]string{true: "pre-populated", false: "fresh"}[prepopulated], withHolder, describeSchedule(ex), bad),
					Replay: mustJSON(map[string]any{"engine": "sched-open", "property": "C16", "threads": nThreads, "prepopulated": prepopulated, "schedule": ex.Sched.Choices})})
				return false
			}
			return true
		})
		if !complete {
			res.Partial = true
		}
		for o := range outcomes {
			res.States = append(res.States, hash64(o, fmt.Sprint(nThreads, prepopulated)))
		}
		if len(outcomes) > 1 {
			res.Nontrivial++
		}
		res.count("max:schedules_per_scenario", int64(n))
		res.Samples = append(res.Samples, fmt.Sprintf("%d racing Opens (prepopulated=%v, holder closing concurrently=%v), every file-system / flock call and the open/flock window a schedule point, PB<=%d: %d schedules, outcomes %v", nThreads, prepopulated, withHolder, pb, n, sortedKeys(outcomes)))
	}
}

// ---- a database whose directory is named like another database's merge directory -------------------------------
// Merge works in the sibling directory "<dir>-merge". If THAT directory is itself an open database (B), nothing the
// neighbour (A on "<dir>") does - Open, writes, Merge, Close, in every order - may touch it or make it openable a
// second time. All orders of A's events around the checks are enumerated (B stays open throughout).
func c16NeighbourTask(res *TaskResult) {
	beginExecution()
	evs := []string{"openA", "writeA", "mergeA", "backupA", "closeA"}
	states := map[uint64]bool{}
	// every prefix-closed sequence over A's events (length <= 6) in which A is open when it writes / merges / closes
	var seqs [][]string
	var gen func(cur []string, open bool)
	gen = func(cur []string, open bool) {
		seqs = append(seqs, append([]string{}, cur...))
		if len(cur) == 6 {
			return
		}
		for _, e := range evs {
			if (e == "openA") == open {
				continue
			}
			gen(append(cur, e), e != "closeA")
		}
	}
	gen(nil, false)
	for n, seq := range seqs {
		progressTick.Add(1)
		res.Execs++
		root := filepath.Join(scratchRoot(), fmt.Sprintf("nb%d", n))
		os.MkdirAll(root, 0o755)
		dirA, dirB := filepath.Join(root, "db"), filepath.Join(root, "db-merge")
		bad := func() (out string) {
			// (registered first, runs last: a Close that the lock model refuses - the database lock is still held by a
			// call that has returned - is a finding, not a crash of the harness)
			defer func() {
				if r := recover(); r != nil && out == "" {
					out = fmt.Sprintf("closing the two databases at the end: panic: %v", r)
				}
			}()
			b, err := kv.Open(defaultCfg.options(dirB))
			if err != nil {
				return "setup: " + err.Error()
			}
			defer b.Close()
			b.Put([]byte("x"), []byte("B's value"))
			b.Sync()
			want := dirFingerprint(dirB)
			var a *kv.DB
			defer func() {
				if a != nil {
					a.Close()
				}
			}()
			for i, e := range seq {
				res.Transitions++
				var err error
				func() {
					defer func() {
						if r := recover(); r != nil {
							err = fmt.Errorf("panic: %v", r)
						}
					}()
					switch e {
					case "openA":
						a, err = kv.Open(defaultCfg.options(dirA))
					case "writeA":
						err = a.Put([]byte("a"), []byte(fmt.Sprint("v", i)))
					case "mergeA":
						err = a.Merge() // may refuse: its merge directory is somebody's database
						if err != nil && !strings.HasPrefix(err.Error(), "panic") {
							err = nil
						}
					case "backupA":
						// a backup INTO the directory of the open database: whether it is refused or overwrites files there is
						// not C16's business - but the directory stays locked
						if e := a.Backup(dirB); e != nil && strings.HasPrefix(e.Error(), "panic") {
							err = e
						}
						want = ""
					case "closeA":
						err = a.Close()
						a = nil
					}
				}()
				if err != nil {
					return fmt.Sprintf("event %d %s failed: %v", i, e, err)
				}
				res.Evals++
				if want == "" {
					want = dirFingerprint(dirB) // after a backup into it: whatever is there now
				} else if got := dirFingerprint(dirB); got != want {
					return fmt.Sprintf("after event %d %s of the neighbour on %q the contents of %q (an open database) changed: %s", i, e, "db", "db-merge", listDirPlain(dirB))
				}
				if c, err := kv.Open(defaultCfg.options(dirB)); err == nil {
					c.Close()
					return fmt.Sprintf("after event %d %s of the neighbour, a second Open of %q succeeded while its first handle is open", i, e, "db-merge")
				} else if !errors.Is(err, kv.ErrDatabaseIsUsing) {
					return fmt.Sprintf("after event %d %s of the neighbour, a second Open of %q returned %v (want the directory-in-use error)", i, e, "db-merge", err)
				}
				if v, err := b.Get([]byte("x")); !backedUp(seq[:i+1]) && (err != nil || string(v) != "B's value") {
					return fmt.Sprintf("after event %d %s of the neighbour, the open database on %q reads x = %q, %v", i, e, "db-merge", v, err)
				}
			}
			return ""
		}()
		os.RemoveAll(root)
		if strings.HasPrefix(bad, "setup:") {
			res.Err = "C16 neighbour harness: " + bad
			return
		}
		states[hash64(strings.Join(seq, " "), bad)] = true
		if bad != "" {
			addViolation(res, &Violation{Prop: "C16", Clause: "neighbour-merge-directory", Sig: "neighbour-merge-directory",
				Detail: fmt.Sprintf("database B open on \"db-merge\", neighbour A on \"db\" runs %v\n%s", seq, bad),
				Replay: mustJSON(map[string]any{"engine": "neighbour", "property": "C16", "events": seq})})
			break
		}
	}
	res.Nontrivial++
	for h := range states {
		res.States = append(res.States, h)
	}
	res.Samples = append(res.Samples, fmt.Sprintf("%d event sequences of the neighbour (openA writeA mergeA closeA, length <= 6) next to an open database on db-merge", len(seqs)))
}

func backedUp(seq []string) bool {
	for _, e := range seq {
		if e == "backupA" {
			return true
		}
	}
	return false
}

func listDirPlain(dir string) string {
	ents, _ := os.ReadDir(dir)
	var out []string
	for _, e := range ents {
		out = append(out, e.Name())
	}
	return strings.Join(out, " ")
}

func init() {
	register(&Check{
		Prop:   "C16",
		Engine: "proc",
		Procs:  2,
		Rule:   "explicit enumeration of ALL event sequences of the given length over {Open_i, Close_i, Corrupt, Repair} for 2-3 clients on one pre-populated directory against a one-variable model (holder, corrupt flag): mutual exclusion, ErrDatabaseIsUsing + byte-identical directory for a rejected Open, lock released by Close and by a failed Open. Every sequence is executed in-process (flock on separate descriptors excludes like separate processes) and, at the child level, with REAL child processes whose transcript must agree. Racing Opens of a fresh / pre-populated directory are explored under the controlled scheduler with every file-system and flock call as a schedule point. states = distinct transcripts; non-trivial = sequences with both a rejected Open and a failed Open",
		Assumptions: []string{
			"GC is disabled during an execution so that a leaked lock descriptor is not released by a finalizer at a random moment",
			"Corrupt flips one bit inside the first record of the first data file, which is followed by an intact record (not a torn tail: Open then fails after it has taken the lock)",
		},
		Tasks: func(tier string) []Task {
			d2, d3, dc, pb := 8, 6, 6, -1
			if tier == "thorough" {
				d2, d3, dc, pb = 10, 7, 7, -1
			}
			return []Task{
				{Level: fmt.Sprintf("inproc-2clients-len%d", d2), Name: "inproc 2 clients", Fn: c16ProcTask(2, d2, false)},
				{Level: fmt.Sprintf("inproc-3clients-len%d", d3), Name: "inproc 3 clients", Fn: c16ProcTask(3, d3, false)},
				{Level: fmt.Sprintf("children-2clients-len%d", dc), Name: "children 2 clients", Fn: c16ProcTask(2, dc, true)},
				{Level: fmt.Sprintf("children-3clients-len%d", dc-1), Name: "children 3 clients", Fn: c16ProcTask(3, dc-1, true)},
				{Level: fmt.Sprintf("racing-opens-2-pb%d", pb), Name: "racing opens 2 fresh", Fn: c16RaceTask(2, pb, false)},
				{Level: fmt.Sprintf("racing-opens-2-pb%d", pb), Name: "racing opens 2 populated", Fn: c16RaceTask(2, pb, true)},
				{Level: "racing-opens-3-pb-unbounded", Name: "racing opens 3 fresh", Fn: c16RaceTask(3, -1, false)},
				{Level: "racing-opens-3-pb-unbounded", Name: "racing opens 3 populated", Fn: c16RaceTask(3, -1, true)},
				{Level: "close-vs-opens", Name: "holder closes while 1 opens", Fn: c16RaceTaskH(1, -1, true, true)},
				{Level: "close-vs-opens", Name: "holder closes while 2 open", Fn: c16RaceTaskH(2, -1, true, true)},
				{Level: "close-vs-opens", Name: "holder closes while 3 open", Fn: c16RaceTaskH(3, 3, true, true)},
				{Level: "close-vs-opens", Name: "holder closes during its own Fold while 1 opens", Fn: c16RaceTaskHF(1, 3, "fold")},
				{Level: "close-vs-opens", Name: "holder closes during its own Put while 1 opens", Fn: c16RaceTaskHF(1, 3, "put")},
				{Level: "neighbour-merge-directory", Name: "neighbour whose merge directory is an open database", Fn: c16NeighbourTask},
			}
		},
		Bounds: func(tier string) map[string]any {
			if tier == "quick" {
				return map[string]any{"inproc": "2 clients len 8, 3 clients len 6", "children": "2 clients len 6, 3 clients len 5", "racing_opens": "2 and 3 goroutines, fresh and populated, all interleavings (unbounded)"}
			}
			return map[string]any{"inproc": "2 clients len 10, 3 clients len 7", "children": "2 clients len 7, 3 clients len 6", "racing_opens": "2 and 3 goroutines, fresh and populated, all interleavings (unbounded)"}
		},
		Replay: func(raw json.RawMessage) {
			var m struct {
				Engine   string      `json:"engine"`
				Clients  int         `json:"clients"`
				Children bool        `json:"children"`
				Events   []procEvent `json:"events"`
			}
			json.Unmarshal(raw, &m)
			if m.Engine == "neighbour" {
				var res TaskResult
				c16NeighbourTask(&res)
				for _, v := range res.Violations {
					fmt.Printf("VIOLATION clause=%s\n%s\n", v.Clause, v.Detail)
					os.Exit(1)
				}
				fmt.Println("no violation on this tree")
				return
			}
			if m.Engine != "proc" {
				fmt.Println("replay of racing-Open schedules: re-run ./run.sh C16 quick")
				return
			}
			debug.SetGCPercent(-1)
			var cs []client
			for i := 0; i < m.Clients; i++ {
				if m.Children {
					c, _ := newChildClient()
					cs = append(cs, c)
				} else {
					cs = append(cs, &inprocClient{})
				}
			}
			var res TaskResult
			tr, v := runProcSeq(cs, m.Events, filepath.Join(scratchRoot(), "replay"), &res)
			for _, c := range cs {
				c.Kill()
			}
			fmt.Println("transcript:", tr)
			if v != "" {
				fmt.Println("VIOLATION", v)
				os.Exit(1)
			}
			fmt.Println("no violation on this tree")
		},
	})
}

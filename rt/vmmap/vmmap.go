// Package vmmap replaces github.com/edsrzf/mmap-go in the code under test.
package vmmap

import (
	"sync"
	"unsafe"

	mmap "github.com/edsrzf/mmap-go"

	"github.com/XiXi-2024/xixi-kv/verifrt/iorec"
	"github.com/XiXi-2024/xixi-kv/verifrt/vos"
)

const (
	RDONLY = mmap.RDONLY
	RDWR   = mmap.RDWR
	COPY   = mmap.COPY
	EXEC   = mmap.EXEC
	ANON   = mmap.ANON
)

type MMap []byte

var (
	mu    sync.Mutex // the code under test may map from several free-running goroutines (background merge)
	paths = map[uintptr]string{}
	live  = map[uintptr]mmap.MMap{}
)

func pathOf(k uintptr) string {
	mu.Lock()
	defer mu.Unlock()
	return paths[k]
}

// ReleaseAll unmaps every mapping the code under test left behind (an abandoned instance after a panic, a failed
// Open that did not release what it had mapped): the next execution of the same process starts without them, so a
// long exploration cannot run into the per-process mapping limit. Returns how many there were.
func ReleaseAll() int {
	mu.Lock()
	defer mu.Unlock()
	n := len(live)
	for k, m := range live {
		m.Unmap()
		delete(live, k)
		delete(paths, k)
	}
	return n
}

func key(m MMap) uintptr {
	if len(m) == 0 {
		return 0
	}
	return uintptr(unsafe.Pointer(&m[0]))
}

func Map(f *vos.File, prot, flags int) (MMap, error) { return MapRegion(f, -1, prot, flags, 0) }

func MapRegion(f *vos.File, length int, prot, flags int, offset int64) (MMap, error) {
	var out mmap.MMap
	name := ""
	if f != nil {
		name = f.Name()
	}
	err := iorec.Do("mmap", name, "", offset, int64(length), func() error {
		var e error
		if f == nil {
			out, e = mmap.MapRegion(nil, length, prot, flags, offset)
		} else {
			out, e = mmap.MapRegion(f.Real(), length, prot, flags, offset)
		}
		return e
	})
	if err != nil {
		return nil, err
	}
	mu.Lock()
	paths[key(MMap(out))] = name
	live[key(MMap(out))] = out
	mu.Unlock()
	return MMap(out), nil
}

func (m MMap) Lock() error   { return mmap.MMap(m).Lock() }
func (m MMap) Unlock() error { return mmap.MMap(m).Unlock() }

func (m MMap) Flush() error {
	return iorec.Do("msync", pathOf(key(m)), "", 0, int64(len(m)), func() error { return mmap.MMap(m).Flush() })
}

func (m *MMap) Unmap() error {
	k := key(*m)
	name := pathOf(k)
	return iorec.Do("munmap", name, "", 0, int64(len(*m)), func() error {
		r := mmap.MMap(*m)
		err := r.Unmap()
		*m = MMap(r)
		if err == nil {
			mu.Lock()
			delete(paths, k)
			delete(live, k)
			mu.Unlock()
		}
		return err
	})
}

#!/usr/bin/env python3
"""Regenerates MANIFEST.json from the table below (kept in one place so it is always valid)."""
import json, sys

BASE_CMD = "cd /repo && GOFLAGS=-mod=mod GOPROXY=off GOSUMDB=off GOTOOLCHAIN=local go test -vet=off -count=1 ./..."

# property -> (engine, technique, level text, level note, design ref)
def seq(text, note, ref, tech="bounded-exhaustive enumeration of operation sequences executed on the real engine, compared with a reference model after every step"):
    return ("seq", tech, text, note, ref)

CHECKS = {
 "C01": seq("every operation sequence within the stated depth/deviation bound, under every listed configuration, is executed on the real code and every read path (Get, ListKeys, Fold, iterators both ways, Stat.KeyNum) is compared with a reference map after every step",
            "bounds: 2 keys, value classes S/E/L/X/B/M, depth<=4-5; Merge scan order owned by the harness (both orders are symbols); shims replace sync/os by pass-through wrappers; no faults", "DESIGN.md §6 C01"),
 "C02": seq("all (writer cfg, reader cfg) pairs x all operation sequences within the bound: the dump before Close is compared with the dump after Open on copies reopened under every reader configuration, twice; plus an exhaustive end-offset sweep (every reachable file end offset within a block, 3 shapes, both I/O back-ends, append + reopen)",
            "bounds: depth 2-4, 12 configurations; quick tier sweeps a subset of the 32768 offsets, thorough all", "DESIGN.md §6 C02"),
 "C03": ("crash", "exhaustive enumeration of crash instants (after every intercepted I/O call) and of every admissible cut of unsynced file tails; recovery with the real Open compared with the prefix states allowed by the acknowledgement/durability window",
            "all workloads of length 1..d (incl. merge and adopting restart) x 3 sync strategies x both I/O back-ends, plus a block family (multi-block values, cuts next to block boundaries); crash image after every I/O event of the last operation; process death and power loss (every cut length of every unsynced tail, singly and in pairs); recovered dump must equal S_j in the acknowledgement / promised-durability window; second Open must agree; the recovered database is driven on under the reference-map oracle",
            "write calls atomic under process death; power loss = cuts of unsynced tails (Standard I/O: shorter file, MMap: zero-fill), directory ops durable in order; a restart takes >= 2 ms of the harness-owned clock; recovered databases are driven on after recovery (continuation)", "DESIGN.md §6 C03"),
 "C04": ("crash", "exhaustive enumeration of batch bodies x crash instants inside and after Commit x tail cuts; recovered state must equal a whole-batch state S_j; plus live/restart/merge visibility",
            "pre-history x one batch (all bodies up to the bound, Sync false/true) x post-history; crash image after every I/O event from the batch on, process death and power loss; exactly-S_j oracle (a half-applied batch equals no S_j); visibility after Commit, restarts, merge+adoption",
            "Standard I/O; bodies <= 2-3 staged ops; crash model of C03; durability lower bound also from what Commit of a Sync batch promised", "DESIGN.md §6 C04"),
 "C19": seq("all command sequences within the bound over 22 mutating commands (five types, two keys, deletion, re-creation, clock advance, restart); every reply compared with a data-type model; a probe battery of every read command after every step; battery unchanged across restart",
            "clock owned by the harness; unjudged cases (other-type commands on expired strings / emptied containers) prune the sequence; crashtear symbol / crash level: restart after a crash that tore the previous command off the log (model rolled back), the torn batch must stay dead across later sessions", "DESIGN.md §6 C19"),
 "C05": seq("all pre-histories x all staging sequences within the bound with Batch.Get of every key after every staging step compared with a layered reference map; Commit result, reuse rejection, and the state after restart compared with the fold of the batch in issue order",
            "bounds: 3 keys, pre-history <=2-3 ops, staging <=4-6 ops incl. overflow of DataFileSize mid-way", "DESIGN.md §6 C05"),
 "C06": seq("operation sequences with Merge (both scan orders) and restarts: reference-map oracle after every step (live, after adoption, after later restarts); after adoption the merge directory is gone and merged files hold exactly the live records, once, no tombstones; fault injection: each I/O call of Merge fails once",
            "sequential part + fault injection (one fault per run) + SCHED scenarios Merge || 1-2 writer calls (all schedules up to the preemption bound)", "DESIGN.md §6 C06"),
 "C07": ("crash", "exhaustive enumeration of crash instants of Merge and of the adopting Open, nested (the recovery itself is crashed at each of its I/O events), plus all subsets of partially executed remove-all; plus schedule x crash exploration: every interleaving of Merge with one writer under the controlled scheduler, a crash image after every I/O call and every power-loss cut",
            "every history within the bound + Merge / Merge+adopting restart: crash image after every I/O event, each recovered with the real Open and compared with the acknowledged mapping, recursively to nesting depth 2-3; Merge || {Put, Delete, batch, overflowing batch}: all schedules x all crash points x tail cuts x nested recovery crashes",
            "sequential levels: process death only, file-system calls atomic and durable in order; Standard I/O and MMap", "DESIGN.md §6 C07"),
 "C18": seq("operation sequences over varint-like / long keys, each followed by Merge (both scan orders): every hint entry is checked against the record decoded at its position; hinted keys = stored keys = live keys; differential hint-path Open vs scan-path Open (index entries, values, KeyNum)",
            "differential open on Standard I/O; keys include varint-like bytes, keys ending in zero bytes, 300-byte, 20 kB and 40-70 kB keys", "DESIGN.md §6 C18"),
 "C08": ("sched", "stateless model checking of the implementation: controlled cooperative scheduler (in a -race build whose baton hand-off is invisible to the race detector), preemption-bounded DFS over all interleavings at lock/atomic granularity; porcupine linearizability check per schedule; conflicting unsynchronised accesses between the calls of a schedule are reported as well",
            "every scenario of a shape grammar (2-3 client threads of 1-2 calls on colliding keys, optionally a Merge thread, x initial states x index types) is explored exhaustively up to the preemption bound (unbounded for the small shapes); per schedule: per-key linearizability of the call/return history and equality of the quiescent live mapping with the mapping after one and two restarts",
            "schedule points at Lock/RLock/atomics only (sound for race-free executions; the premise is monitored by the race detector in every explored schedule, and by C09 for all call pairs); bounds on threads, calls and preemptions", "DESIGN.md §6 C08"),
 "C09": ("sched", "stateless model checking under the controlled scheduler in a -race build whose baton hand-off is invisible to the race detector; preemption-bounded DFS",
            "all pairs and writer-containing triples of the 11 API calls x 3 index types x {one file, rotation on every record}: every schedule up to the preemption bound is monitored by the Go race detector and checked for panics, deadlock/livelock, internal errors and nil keys; plus one separate free-running pass (not an exploration, counted apart) with the engine's own background merge goroutine enabled and its ticker shortened, also under the race detector",
            "the race detector sees only enumerated executions; 2-3 goroutines; the background goroutine is not owned by the scheduler (free-running pass only); a second free-running pass drives two databases of one process at the same time (shared process-wide state), counted apart as free_running_executions", "DESIGN.md §6 C09"),
 "C10": seq("every subset of a 6-key universe x direction x index type x shard count x prefix x every call sequence (Rewind/Seek/Next/one interleaved write) within the bound, at index level and at DB level; (Valid, Key, Value) compared with a sorted-slice cursor model after every call; ListKeys and Fold compared with the same snapshot",
            "bounds: 6 keys, 10 seek targets, 5 prefixes, call sequences of 4-6 calls; backward seeks are pruned (unspecified)", "DESIGN.md §6 C10"),
 "C11": ("sweep", "exhaustive sweep of start offsets x record-length windows x write shapes at the data-file layer, format-agnostic round-trip oracle",
            "for every start offset of the sweep set, every record length in +-48 windows around the end-of-block boundaries for records spanning 1-3 blocks, single writes and FlushStaged groups, both back-ends: sequential and random read-back, positions, sizes, EOF, byte-identical files, reopen+append; hint records through the same writer/reader",
            "quick tier sweeps 768 of the 32768 start offsets, thorough all; lengths beyond 3 blocks are not swept", "DESIGN.md §6 C11"),
 "C12": ("corrupt", "exhaustive single-position fault enumeration over small closed databases (every bit flip, byte substitution, run, truncation, block substitution), each faulted image opened and read with the real code",
            "for every byte of every data and hint file of images covering every record kind: all single-bit flips, 0x00/0xFF substitutions, runs of 2..64 bytes, all truncation lengths, block substitutions; oracle: no panic, no bytes never written for that key, no phantom key, through the sequential reader, Open, Get, ListKeys, Fold",
            "serving an older value of the same key is not judged; multi-chunk image is faulted near block boundaries and on a stride", "DESIGN.md §6 C12"),
 "C13": seq("operation sequences under every SyncStrategy x BytesPerSync x I/O back-end; at the return of every public call the per-file unflushed-byte accounting derived from the intercepted write/fsync/msync events is judged against the policy (Always, Threshold, Sync batch, Sync(), Close(), rotation)",
            "flush is judged at (*os.File).Sync / mmap Flush; MMap writes are seen through a recording wrapper of (*MMap).Write; only *.data files of the data directory", "DESIGN.md §6 C13"),
 "C14": seq("every operation sequence within the bound is executed in lock-step under 16-20 configurations; complete transcripts (results, errors, iteration orders, recovered mapping) must be identical; within equal (DataFileSize, sync strategy) also Stat and, for batch-free sequences, the data-file bytes",
            "configuration set = single-dimension variants + mixed rows, not the full product; adversarial caller reusing its buffers; torn-tail level (restart that finds the newest file 1 or 12 bytes short) compared within equal DataFileSize", "DESIGN.md §6 C14"),
 "C15": seq("operation sequences executed by an adversarial caller that reuses ONE key and ONE value buffer and poisons them after every return, for every index type: reference-map oracle on every read path, canary check of the caller's buffers, slices returned by Get/ListKeys compared with copies taken at return",
            "sync.Pool replaced by a deterministic LIFO free list (the adversarial legal behaviour); Batch.Get keys go through the reused buffer too and are judged on the spot; quiet batch bodies without Batch.Get", "DESIGN.md §6 C15"),
 "C20": seq("operation sequences with Backup at every position under both I/O back-ends; every Backup is verified (copy opens while the source is open, equal dump, no lock file, independent), then the source's reference-map oracle continues through a 3-block Put and a restart",
            "SIGBUS is turned into a recoverable panic and reported; backups of databases with > 4 operations are not explored", "DESIGN.md §6 C20"),
 "C16": ("proc", "explicit-state enumeration of all Open/Close/Corrupt/Repair event sequences of 2-3 clients against a one-variable lock model, executed in-process and with real child processes (transcripts must agree); racing Opens explored under the controlled scheduler with every file-system/flock call as a schedule point",
            "all event sequences up to the length bound: mutual exclusion, ErrDatabaseIsUsing with byte-identical directory for a rejected Open, lock released by Close and by a failed Open; all interleavings of 2-3 racing Opens on a fresh and on a populated directory",
            "flock on separate descriptors in one process excludes like separate processes (bound to real processes by the child-process runs); GC disabled during executions", "DESIGN.md §6 C16"),
 "C17": seq("C01's operation sequences; after every step Stat is compared with values recomputed independently from the data files decoded with the package's own sequential reader (live bytes, file count, key count, size-limit rule)",
            "byte-level recomputation for Standard I/O only; DiskSize itself is not pinned by the statement", "DESIGN.md §6 C17"),
}

NOT_YET = {}
ALL = ["C%02d" % i for i in range(1, 21)]

def main():
    impl = set(sys.argv[1:]) if len(sys.argv) > 1 else set(CHECKS)
    checks = []
    for pid in ALL:
        if pid in CHECKS and pid in impl:
            eng, tech, text, note, ref = CHECKS[pid]
            checks.append({
                "property_id": pid,
                "quick_cmd": "./run.sh %s quick" % pid,
                "thorough_cmd": "./run.sh %s thorough" % pid,
                "evidence_file": "/verif/evidence/%s.json" % pid,
                "replay_cmd_template": "./run.sh replay {path}",
                "engine": eng,
                "level_claimed": {"category": "model_checking", "text": text, "design_ref": ref},
                "level_note": note,
                "technique": tech,
            })
    na = [{"property_id": p, "reason": NOT_YET.get(p, "check not implemented yet in this revision (planned, see DESIGN.md §6)")}
          for p in ALL if not any(c["property_id"] == p for c in checks)]
    engines = {}
    for c in checks:
        engines.setdefault(c["engine"], []).append(c["property_id"])
    m = {
        "version": 1,
        "setup_cmd": "./setup.sh",
        "hooks": {
            "guard": "verif",
            "enable": "no hooks are committed into /repo: every check rewrites import paths (sync, sync/atomic, os, time, mmap-go, flock -> /verif/rt shims) into a scratch copy and builds with `go build -tags verif -overlay`; /repo is never modified",
            "baseline_off_cmd": BASE_CMD,
            "source_commits": [],
            "add_only": True,
        },
        "engines": [{"name": e, "path": "/verif/harness", "serves_properties": ps,
                     "kind_free_text": ENGINE_TEXT.get(e, "")} for e, ps in sorted(engines.items())],
        "checks": checks,
        "not_applicable": na,
        "notes": "All checks: ./run.sh <Cxx> <quick|thorough>; rebuilds the instrumented harness from /repo's working tree on every run. KNOWN_FINDINGS.txt lists genuine defects: repaired in /repo by 56 fix: commits (57 fixed: lines, which suppress nothing) and 4 open ones (KF-3 C19 sorted-set key collision, KF-4 C12 zero run taken for the end of data, KF-5 C12 Middle chunk swap, KF-6 C02 failed Commit of an overflowing batch leaves its flushed pieces visible until the restart), each printed as a KNOWN-FINDING line by its check, which exits 0 and reports anything else. DESIGN.md section 10 is the as-built report (10.4 repairs, 10.5 open findings and limits, 10.6 which checks catch which of the 230 seeded changes in /verif/seeded).",
    }
    json.dump(m, open("/verif/MANIFEST.json", "w"), indent=1)
    print("wrote MANIFEST.json with", len(checks), "checks,", len(na), "not_applicable")

ENGINE_TEXT = {
 "seq": "explicit enumeration of all operation sequences up to a depth/deviation bound, executed on the real code, oracle = reference model after every step",
 "sched": "controlled cooperative scheduler + preemption-bounded DFS over all thread interleavings at synchronisation points of the real code",
 "crash": "enumeration of every crash instant between intercepted I/O calls and every tail-cut length, recovery with the real Open",
 "sweep": "exhaustive sweep of start offsets x record lengths at the data-file layer",
 "corrupt": "exhaustive single-position fault enumeration over small on-disk images",
 "proc": "explicit-state enumeration of Open/Close interleavings of several clients (in-process and child processes)",
}

if __name__ == "__main__":
    main()

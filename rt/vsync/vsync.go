// Package vsync replaces "sync" in the code under test (import rewriting at check time).
// Lock types keep a model state (package sched) next to the real primitive: the model decides
// whether an acquire can proceed (schedule point, deadlock detection), and the real operation is
// issued only when it cannot block, so a -race build sees exactly the program's own edges.
package vsync

import (
	"sync"

	"github.com/XiXi-2024/xixi-kv/verifrt/sched"
)

// ModelPanic is the panic value raised for conditions that would hang or kill the real program.
type ModelPanic string

func (m ModelPanic) Error() string { return string(m) }

type Locker = sync.Locker

type Mutex struct {
	st   sched.LockState
	real sync.Mutex
}

func (m *Mutex) Lock() {
	if sched.GetMode() != sched.ModeOff {
		if !sched.AcquireW(&m.st) {
			panic(ModelPanic("vsync: deadlock: Lock of a held Mutex by the only running goroutine"))
		}
		if sched.Aborting() {
			m.real.TryLock()
			return
		}
	}
	m.real.Lock()
}

func (m *Mutex) TryLock() bool {
	if sched.GetMode() != sched.ModeOff {
		if !sched.TryW(&m.st) {
			return false
		}
	}
	return m.real.TryLock()
}

func (m *Mutex) Unlock() {
	if sched.GetMode() != sched.ModeOff {
		if !sched.ReleaseW(&m.st) {
			panic(ModelPanic("vsync: fatal error: sync: unlock of unlocked mutex"))
		}
	}
	m.real.Unlock()
}

type RWMutex struct {
	st   sched.LockState
	real sync.RWMutex
}

func (m *RWMutex) Lock() {
	if sched.GetMode() != sched.ModeOff {
		if !sched.AcquireW(&m.st) {
			panic(ModelPanic("vsync: deadlock: Lock of a held RWMutex by the only running goroutine"))
		}
		if sched.Aborting() {
			m.real.TryLock()
			return
		}
	}
	m.real.Lock()
}

func (m *RWMutex) TryLock() bool {
	if sched.GetMode() != sched.ModeOff {
		if !sched.TryW(&m.st) {
			return false
		}
	}
	return m.real.TryLock()
}

func (m *RWMutex) Unlock() {
	if sched.GetMode() != sched.ModeOff {
		if !sched.ReleaseW(&m.st) {
			panic(ModelPanic("vsync: fatal error: sync: Unlock of unlocked RWMutex"))
		}
	}
	m.real.Unlock()
}

func (m *RWMutex) RLock() {
	if sched.GetMode() != sched.ModeOff {
		if !sched.AcquireR(&m.st) {
			panic(ModelPanic("vsync: deadlock: RLock of a write-locked RWMutex by the only running goroutine"))
		}
		if sched.Aborting() {
			m.real.TryRLock()
			return
		}
	}
	m.real.RLock()
}

func (m *RWMutex) TryRLock() bool {
	if sched.GetMode() != sched.ModeOff {
		if !sched.TryR(&m.st) {
			return false
		}
	}
	return m.real.TryRLock()
}

func (m *RWMutex) RUnlock() {
	if sched.GetMode() != sched.ModeOff {
		if !sched.ReleaseR(&m.st) {
			panic(ModelPanic("vsync: fatal error: sync: RUnlock of unlocked RWMutex"))
		}
	}
	m.real.RUnlock()
}

type rlocker RWMutex

func (r *rlocker) Lock()   { (*RWMutex)(r).RLock() }
func (r *rlocker) Unlock() { (*RWMutex)(r).RUnlock() }

func (m *RWMutex) RLocker() Locker { return (*rlocker)(m) }

// Pool: in ModeOff a real sync.Pool. Otherwise a deterministic LIFO free list per controlled thread,
// dropped whenever the harness starts a new execution (NewGeneration). This is a legal sync.Pool
// behaviour (the adversarial one for aliasing bugs), deterministic, and without cross-thread edges.
type Pool struct {
	New func() any

	real  sync.Pool
	gen   int64
	lists [sched.MaxThreads][]any
}

var poolGen int64 = 1

// PoolFIFO: Get hands back the OLDEST pooled object instead of the newest. sync.Pool promises no order; the
// harness owns the choice (a pooled record that was not reset is only seen by the writer that draws it).
var PoolFIFO bool

// NewGeneration empties every Pool lazily (called by the harness between executions).
//
//go:norace
func NewGeneration() { poolGen++ }

//go:norace
func (p *Pool) check() {
	if p.gen != poolGen {
		p.gen = poolGen
		for i := range p.lists {
			p.lists[i] = nil
		}
	}
}

//go:norace
func (p *Pool) Get() any {
	if sched.GetMode() == sched.ModeOff {
		if p.real.New == nil && p.New != nil {
			p.real.New = p.New
		}
		return p.real.Get()
	}
	p.check()
	l := &p.lists[sched.Cur()]
	if n := len(*l); n > 0 && PoolFIFO {
		x := (*l)[0]
		(*l)[0] = nil
		*l = (*l)[1:]
		return x
	} else if n > 0 {
		x := (*l)[n-1]
		(*l)[n-1] = nil
		*l = (*l)[:n-1]
		return x
	}
	if p.New != nil {
		return p.New()
	}
	return nil
}

//go:norace
func (p *Pool) Put(x any) {
	if x == nil {
		return
	}
	if sched.GetMode() == sched.ModeOff {
		p.real.Put(x)
		return
	}
	p.check()
	l := &p.lists[sched.Cur()]
	*l = append(*l, x)
}

// The remaining types are not scheduling relevant in this code base; they are forwarded.
type (
	WaitGroup = sync.WaitGroup
	Once      = sync.Once
	Cond      = sync.Cond
	Map       = sync.Map
)

func NewCond(l Locker) *Cond { return sync.NewCond(l) }

func OnceFunc(f func()) func() { return sync.OnceFunc(f) }

func OnceValue[T any](f func() T) func() T { return sync.OnceValue(f) }

func OnceValues[T1, T2 any](f func() (T1, T2)) func() (T1, T2) { return sync.OnceValues(f) }

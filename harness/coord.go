package main

import (
	"bufio"
	"encoding/json"
	"fmt"
	"github.com/XiXi-2024/xixi-kv/verifrt/iorec"
	"os"
	"os/exec"
	"path/filepath"
	"regexp"
	"runtime/pprof"
	"sort"
	"strconv"
	"strings"
	"sync"
	"sync/atomic"
	"syscall"
	"time"
)

// Task is one unit of work of a check. Both coordinator and workers enumerate the same task list
// (deterministically from property + tier); only the index travels over the pipe.
type Task struct {
	Level string // bound level this task belongs to (reported in the evidence)
	Name  string
	Fn    func(res *TaskResult)
}

// Check is the registration record of one property check.
type Check struct {
	Prop        string
	Engine      string
	Rule        string   // what makes a case distinct / non-trivial
	Assumptions []string // written to the evidence
	Procs       int      // GOMAXPROCS of a worker (default 2)
	Race        bool     // needs the -race build
	Tasks       func(tier string) []Task
	Bounds      func(tier string) map[string]any
	Replay      func(raw json.RawMessage) // re-execute one replay artefact verbosely
}

var checks = map[string]*Check{}

func register(c *Check) { checks[c.Prop] = c }

// known finding entry (KNOWN_FINDINGS.txt, "open:" lines)
type knownFinding struct {
	Prop, ID, What string
	Re             *regexp.Regexp
	Hits           int64
}

func loadKnown(path string) []*knownFinding {
	data, err := os.ReadFile(path)
	if err != nil {
		return nil
	}
	var out []*knownFinding
	for _, line := range strings.Split(string(data), "\n") {
		line = strings.TrimSpace(line)
		if !strings.HasPrefix(line, "open:") {
			continue
		}
		kf := &knownFinding{}
		rest := strings.TrimSpace(strings.TrimPrefix(line, "open:"))
		// fields: property=Cxx id=KF-n match=/regex/ what=free text
		if i := strings.Index(rest, " what="); i >= 0 {
			kf.What = rest[i+6:]
			rest = rest[:i]
		}
		if i := strings.Index(rest, " match="); i >= 0 {
			re := strings.TrimSpace(rest[i+7:])
			re = strings.TrimSuffix(strings.TrimPrefix(re, "/"), "/")
			r, err := regexp.Compile("^(?:" + re + ")$")
			if err != nil {
				fmt.Fprintf(os.Stderr, "KNOWN_FINDINGS: bad regex %q: %v\n", re, err)
				os.Exit(2)
			}
			kf.Re = r
			rest = rest[:i]
		}
		for _, f := range strings.Fields(rest) {
			if v, ok := strings.CutPrefix(f, "property="); ok {
				kf.Prop = v
			}
			if v, ok := strings.CutPrefix(f, "id="); ok {
				kf.ID = v
			}
		}
		if kf.Re != nil && kf.Prop != "" {
			out = append(out, kf)
		}
	}
	return out
}

type evidence struct {
	PropertyID  string         `json:"property_id"`
	Tier        string         `json:"tier"`
	Seed        int            `json:"seed"`
	Level       string         `json:"level"`
	Coverage    map[string]any `json:"coverage"`
	Assumptions []string       `json:"assumptions"`
	WallS       float64        `json:"wall_s"`
	Violations  int            `json:"violations"`
}

func verifDir() string {
	if d := os.Getenv("VERIF_DIR"); d != "" {
		return d
	}
	return "/verif"
}

// outDir is where evidence and replays are written (VERIF_OUT, default = verifDir()).
func outDir() string {
	if d := os.Getenv("VERIF_OUT"); d != "" {
		return d
	}
	return verifDir()
}

func tierDeadline(tier string) time.Duration {
	if s := os.Getenv("VERIF_DEADLINE_S"); s != "" {
		if n, err := strconv.Atoi(s); err == nil {
			return time.Duration(n) * time.Second
		}
	}
	if tier == "thorough" {
		return 25 * time.Minute
	}
	return 300 * time.Second
}

type workerProc struct {
	cmd *exec.Cmd
	in  *bufio.Writer
	out *bufio.Reader
	ann string
}

func spawnWorker(c *Check, tier string, idx int, announce bool) (*workerProc, error) {
	self, _ := os.Executable()
	cmd := exec.Command(self, "-worker", "-prop", c.Prop, "-tier", tier)
	procs := c.Procs
	if procs == 0 {
		procs = 2
	}
	ann := filepath.Join(scratchRoot(), fmt.Sprintf("announce-%d-%d", os.Getpid(), idx))
	cmd.Env = append(os.Environ(), "GOMAXPROCS="+strconv.Itoa(procs), "VERIF_WORKER_ID="+strconv.Itoa(idx), "VERIF_ANNOUNCE_FILE="+ann)
	if announce {
		cmd.Env = append(cmd.Env, "VERIF_ANNOUNCE=1")
	}
	cmd.Stderr = os.Stderr
	stdin, err := cmd.StdinPipe()
	if err != nil {
		return nil, err
	}
	stdout, err := cmd.StdoutPipe()
	if err != nil {
		return nil, err
	}
	if err := cmd.Start(); err != nil {
		return nil, err
	}
	return &workerProc{cmd: cmd, in: bufio.NewWriter(stdin), out: bufio.NewReaderSize(stdout, 1<<20), ann: ann}, nil
}

func (w *workerProc) run(id int) (*TaskResult, error) {
	if _, err := fmt.Fprintf(w.in, "%d\n", id); err != nil {
		return nil, err
	}
	if err := w.in.Flush(); err != nil {
		return nil, err
	}
	for {
		line, err := w.out.ReadBytes('\n')
		if err != nil {
			return nil, err
		}
		if !strings.HasPrefix(string(line), "RESULT ") {
			continue // stray output of the code under test
		}
		var r TaskResult
		if err := json.Unmarshal(line[7:], &r); err != nil {
			return nil, fmt.Errorf("bad worker result: %v", err)
		}
		return &r, nil
	}
}

// quit asks the worker to exit and waits for it (killing it after 3 s).
func (w *workerProc) quit() {
	w.in.WriteString("quit\n")
	w.in.Flush()
	done := make(chan struct{})
	go func() { w.cmd.Wait(); close(done) }()
	select {
	case <-done:
	case <-time.After(3 * time.Second):
		w.cmd.Process.Kill()
		<-done
	}
	os.Remove(w.ann)
}

func (w *workerProc) kill() {
	if w.cmd.Process != nil {
		w.cmd.Process.Kill()
	}
	w.cmd.Wait()
	os.Remove(w.ann)
}

// coordinate runs the check and returns the process exit code.
func coordinate(c *Check, tier string) int {
	start := time.Now()
	seed, _ := strconv.Atoi(os.Getenv("VERIF_SEED"))
	tasks := c.Tasks(tier)
	order := make([]int, len(tasks))
	for i := range order {
		order[i] = i
	}
	// VERIF_SEED only rotates the dispatch order inside each level (never what is explored).
	if seed != 0 && len(order) > 1 {
		sort.SliceStable(order, func(a, b int) bool {
			la, lb := tasks[order[a]].Level, tasks[order[b]].Level
			if la != lb {
				return false
			}
			return hash64(strconv.Itoa(order[a]), strconv.Itoa(seed)) < hash64(strconv.Itoa(order[b]), strconv.Itoa(seed))
		})
	}
	deadline := start.Add(tierDeadline(tier))
	nw := 16
	if s := os.Getenv("VERIF_WORKERS"); s != "" {
		nw, _ = strconv.Atoi(s)
	}
	if nw > len(tasks) {
		nw = len(tasks)
	}
	if nw < 1 {
		nw = 1
	}

	var (
		mu          sync.Mutex
		next        int
		total       TaskResult
		states      = map[uint64]struct{}{}
		outcomes    = map[uint64]struct{}{}
		violations  []Violation
		harnessErrs []string
		levelDone   = map[string]int{}
		levelTotal  = map[string]int{}
		stop        bool
		timedOut    bool
		samples     []string
	)
	total.Counters = map[string]int64{}
	for _, t := range tasks {
		levelTotal[t.Level]++
	}
	known := loadKnown(filepath.Join(verifDir(), "KNOWN_FINDINGS.txt"))
	matchKnown := func(v *Violation) *knownFinding {
		for _, k := range known {
			if k.Prop == v.Prop && k.Re.MatchString(v.Clause+"|"+v.Sig) {
				return k
			}
		}
		return nil
	}
	unknownSigs := map[string]bool{}
	absorb := func(r *TaskResult, level string) {
		mu.Lock()
		defer mu.Unlock()
		total.Execs += r.Execs
		total.Transitions += r.Transitions
		total.Evals += r.Evals
		total.Nontrivial += r.Nontrivial
		for _, s := range r.States {
			states[s] = struct{}{}
		}
		for _, s := range r.Outcomes {
			outcomes[s] = struct{}{}
		}
		for k, v := range r.Counters {
			if strings.HasPrefix(k, "max:") {
				if v > total.Counters[k] {
					total.Counters[k] = v
				}
				continue
			}
			total.Counters[k] += v
		}
		if len(samples) < 8 {
			for _, s := range r.Samples {
				if len(samples) < 8 {
					samples = append(samples, s)
				}
			}
		}
		if r.Err != "" {
			harnessErrs = append(harnessErrs, r.Err)
			stop = true
		}
		if r.Partial {
			timedOut = true
		} else {
			levelDone[level]++
		}
		for i := range r.Violations {
			v := r.Violations[i]
			if k := matchKnown(&v); k != nil {
				k.Hits++
				continue
			}
			key := v.Clause + "|" + v.Sig
			if !unknownSigs[key] {
				unknownSigs[key] = true
				violations = append(violations, v)
			}
			if len(violations) >= 5 {
				stop = true
			}
		}
	}

	var wg sync.WaitGroup
	for wi := 0; wi < nw; wi++ {
		wg.Add(1)
		go func(wi int) {
			defer wg.Done()
			var w *workerProc
			defer func() {
				if w != nil {
					w.quit()
				}
			}()
			for {
				mu.Lock()
				if stop || next >= len(order) {
					mu.Unlock()
					return
				}
				if time.Now().After(deadline) {
					timedOut = true
					mu.Unlock()
					return
				}
				id := order[next]
				next++
				mu.Unlock()
				if f := os.Getenv("VERIF_TASK_FILTER"); f != "" && !strings.Contains(tasks[id].Name, f) {
					continue
				}
				if w == nil {
					var err error
					if w, err = spawnWorker(c, tier, wi, false); err != nil {
						mu.Lock()
						harnessErrs = append(harnessErrs, "spawn: "+err.Error())
						stop = true
						mu.Unlock()
						return
					}
				}
				t0 := time.Now()
				r, err := w.run(id)
				if os.Getenv("VERIF_VERBOSE") != "" {
					fmt.Fprintf(os.Stderr, "task %d %s: %.2fs\n", id, tasks[id].Name, time.Since(t0).Seconds())
				}
				if err != nil {
					// the worker died: attribute by re-running the task alone with announcements
					w.kill()
					w = nil
					r = rerunDead(c, tier, wi, id, tasks[id].Name)
					r.count("worker_deaths", 1)
				}
				absorb(r, tasks[id].Level)
			}
		}(wi)
	}
	wg.Wait()

	// ---- verdict
	wall := time.Since(start).Seconds()
	exhaustive := !timedOut && !stop && len(harnessErrs) == 0 && len(violations) == 0
	code := 0
	for _, k := range known {
		if k.Prop == c.Prop && k.Hits > 0 {
			fmt.Printf("KNOWN-FINDING: property=%s %s %s (hits=%d)\n", c.Prop, k.ID, k.What, k.Hits)
		}
	}
	for _, v := range violations {
		dir := filepath.Join(outDir(), "replays", c.Prop)
		os.MkdirAll(dir, 0o755)
		path := filepath.Join(dir, fmt.Sprintf("%016x.json", hash64(v.Clause, v.Sig, string(v.Replay))))
		js, _ := json.MarshalIndent(v, "", " ")
		os.WriteFile(path, js, 0o644)
		fmt.Printf("VIOLATION property=%s replay=%s\n", c.Prop, path)
		fmt.Printf("  clause=%s sig=%s\n  %s\n", v.Clause, v.Sig, strings.ReplaceAll(truncate(v.Detail, 1500), "\n", "\n  "))
		code = 1
	}
	if len(harnessErrs) > 0 {
		for _, e := range harnessErrs {
			fmt.Fprintf(os.Stderr, "HARNESS-ERROR: %s\n", truncate(e, 3000))
		}
		if code == 0 {
			code = 2
		}
	}

	cov := map[string]any{
		"states":                        len(states),
		"transitions":                   total.Transitions,
		"traces_validated_against_impl": total.Execs,
		"evaluations":                   total.Evals,
		"distinct_nontrivial":           total.Nontrivial,
		"distinct_outcomes":             len(outcomes),
		"rule":                          c.Rule,
		"samples":                       samples,
		"exhaustive":                    exhaustive,
		"tasks_total":                   len(tasks),
		"counters":                      total.Counters,
	}
	lv := map[string]string{}
	for l, n := range levelTotal {
		lv[l] = fmt.Sprintf("%d/%d", levelDone[l], n)
	}
	cov["levels_completed"] = lv
	if c.Bounds != nil {
		cov["bounds"] = c.Bounds(tier)
	}
	kh := map[string]int64{}
	for _, k := range known {
		if k.Prop == c.Prop {
			kh[k.ID] = k.Hits
		}
	}
	cov["known_finding_hits"] = kh
	if len(samples) == 0 {
		cov["samples"] = []string{"(no execution completed)"}
	}
	ev := evidence{PropertyID: c.Prop, Tier: tier, Seed: seed, Level: "model_checking", Coverage: cov,
		Assumptions: c.Assumptions, WallS: wall, Violations: len(violations)}
	if code != 2 {
		os.MkdirAll(filepath.Join(outDir(), "evidence"), 0o755)
		js, _ := json.MarshalIndent(ev, "", " ")
		if err := os.WriteFile(filepath.Join(outDir(), "evidence", c.Prop+".json"), append(js, '\n'), 0o644); err != nil {
			fmt.Fprintf(os.Stderr, "HARNESS-ERROR: evidence: %v\n", err)
			return 2
		}
	}
	fmt.Printf("%s %s: tasks=%d execs=%d transitions=%d states=%d outcomes=%d nontrivial=%d violations=%d exhaustive=%v wall=%.1fs\n",
		c.Prop, tier, len(tasks), total.Execs, total.Transitions, len(states), len(outcomes), total.Nontrivial, len(violations), exhaustive, wall)
	return code
}

func truncate(s string, n int) string {
	if len(s) <= n {
		return s
	}
	return s[:n] + "…"
}

var knownCache []*knownFinding
var knownLoaded bool

// isKnown reports whether v matches an open known finding (workers use it to keep exploring past it).
func isKnown(v *Violation) bool {
	if !knownLoaded {
		knownCache = loadKnown(filepath.Join(verifDir(), "KNOWN_FINDINGS.txt"))
		knownLoaded = true
	}
	for _, k := range knownCache {
		if k.Prop == v.Prop && k.Re.MatchString(v.Clause+"|"+v.Sig) {
			return true
		}
	}
	return false
}

// addViolation appends v to res unless the same clause|sig is already there (bounded volume).
func addViolation(res *TaskResult, v *Violation) {
	for i := range res.Violations {
		if res.Violations[i].Clause == v.Clause && res.Violations[i].Sig == v.Sig {
			res.count("dup:"+v.Clause, 1)
			return
		}
	}
	res.Violations = append(res.Violations, *v)
}

// rerunDead re-executes a task whose worker died, with per-execution announcements, up to 5 times.
// Deterministic death => a violation whose replay is the announced trace; otherwise a harness error.
func rerunDead(c *Check, tier string, wi, id int, name string) *TaskResult {
	var lastAnn string
	deaths := 0
	var good *TaskResult
	for try := 0; try < 2; try++ {
		w, err := spawnWorker(c, tier, 1000+wi*10+try, true)
		if err != nil {
			return &TaskResult{ID: id, Err: "respawn: " + err.Error()}
		}
		r, err := w.run(id)
		if err == nil {
			w.quit()
			good = r
			break
		}
		data, _ := os.ReadFile(w.ann)
		if why, err := os.ReadFile(w.ann + ".why"); err == nil {
			data = append(data, []byte(" ["+string(why)+"]")...)
			os.Remove(w.ann + ".why")
		}
		w.kill()
		if try > 0 && strings.SplitN(string(data), " [", 2)[0] != strings.SplitN(lastAnn, " [", 2)[0] {
			return &TaskResult{ID: id, Err: fmt.Sprintf("worker died non-deterministically in task %s (%q vs %q)", name, lastAnn, data)}
		}
		lastAnn = string(data)
		deaths++
	}
	if good != nil {
		if deaths > 0 {
			good.Err = fmt.Sprintf("worker died %d time(s) in task %s but a re-run passed (last announced: %s)", deaths, name, lastAnn)
		}
		return good
	}
	return &TaskResult{ID: id, Violations: []Violation{{Prop: c.Prop, Clause: "process-death",
		Sig:    "process-death",
		Detail: "the worker process died (fatal runtime error / signal) while executing: " + lastAnn,
		Replay: mustJSON(map[string]any{"engine": c.Engine, "task": name, "announced": lastAnn})}}}
}

// ---------------------------------------------------------------------------------------------
// worker side

var (
	announceOn   = os.Getenv("VERIF_ANNOUNCE") == "1"
	announceFile = os.Getenv("VERIF_ANNOUNCE_FILE")
	annFd        *os.File
)

// announce records the execution about to start (only when the coordinator re-runs a dead task).
func announce(f func() string) {
	progressTick.Add(1)
	if !announceOn {
		return
	}
	if annFd == nil {
		annFd, _ = os.OpenFile(announceFile, os.O_CREATE|os.O_RDWR|os.O_TRUNC, 0o644)
	}
	s := f()
	annFd.Truncate(0)
	annFd.WriteAt([]byte(s), 0)
}

// progressTick is bumped at the start of every execution; the watchdog kills the worker when an
// execution hangs (no tick for 20 s) or the process grows beyond 8 GiB (runaway allocation in the code
// under test). The coordinator then re-runs the task with announcements to attribute the death.
var progressTick atomic.Int64

func workerAbort(reason string) {
	fmt.Fprintf(os.Stderr, "WORKER-ABORT: %s\n", reason)
	if announceFile != "" {
		os.WriteFile(announceFile+".why", []byte(reason), 0o644)
	}
	cleanupScratch()
	os.Exit(3)
}

func cpuSeconds() float64 {
	var ru syscall.Rusage
	if err := syscall.Getrusage(syscall.RUSAGE_SELF, &ru); err != nil {
		return 0
	}
	return float64(ru.Utime.Sec+ru.Stime.Sec) + float64(ru.Utime.Usec+ru.Stime.Usec)/1e6
}

func watchdog() {
	last, lastChange := int64(-1), time.Now()
	busy := false
	cpuAtChange := cpuSeconds()
	for {
		time.Sleep(250 * time.Millisecond)
		if data, err := os.ReadFile("/proc/self/statm"); err == nil {
			f := strings.Fields(string(data))
			if len(f) > 2 {
				// anonymous memory only: pages of mapped (tmpfs) data files are resident too, and are not an allocation
				res, _ := strconv.ParseInt(f[1], 10, 64)
				shared, _ := strconv.ParseInt(f[2], 10, 64)
				if pages := res - shared; pages*4096 > 8<<30 {
					workerAbort(fmt.Sprintf("memory: anonymous resident set %d MiB exceeds 8 GiB (runaway allocation)", pages*4096>>20))
				}
			}
		}
		cur := progressTick.Load()
		busy = workerBusy.Load()
		if cur != last || !busy {
			last, lastChange = cur, time.Now()
			cpuAtChange = cpuSeconds()
			continue
		}
		// a spinning execution burns CPU; a stalled machine (snapshot, I/O freeze) does not
		if time.Since(lastChange) > 30*time.Second && cpuSeconds()-cpuAtChange > 25 {
			workerAbort("hang: one execution made no progress for 30 s while burning CPU (infinite loop in the code under test)")
		}
		if time.Since(lastChange) > 300*time.Second {
			workerAbort("hang: one execution made no progress for 300 s (real blocking in the code under test)")
		}
	}
}

var workerBusy atomic.Bool

func workerMain(c *Check, tier string) {
	go watchdog()
	if pf := os.Getenv("VERIF_CPUPROFILE"); pf != "" {
		f, _ := os.Create(pf + "." + os.Getenv("VERIF_WORKER_ID"))
		pprof.StartCPUProfile(f)
		defer pprof.StopCPUProfile()
	}
	tasks := c.Tasks(tier)
	in := bufio.NewReader(os.Stdin)
	out := bufio.NewWriterSize(os.Stdout, 1<<20)
	for {
		line, err := in.ReadString('\n')
		if err != nil || strings.TrimSpace(line) == "quit" {
			return
		}
		id, err := strconv.Atoi(strings.TrimSpace(line))
		if err != nil || id < 0 || id >= len(tasks) {
			fmt.Fprintf(os.Stderr, "worker: bad task id %q\n", line)
			os.Exit(2)
		}
		res := &TaskResult{ID: id}
		leaked0 := leakedMappings
		workerBusy.Store(true)
		func() {
			defer func() {
				if r := recover(); r != nil {
					res.Err = fmt.Sprintf("worker panic in task %s: %v\n%s", tasks[id].Name, r, stack())
				}
			}()
			tasks[id].Fn(res)
		}()
		workerBusy.Store(false)
		if leakedMappings > leaked0 {
			res.count("mappings_left_behind_by_the_code_under_test", int64(leakedMappings-leaked0))
		}
		if iorec.EnvFailure != "" {
			// a real call failed for lack of a machine resource: nothing this task observed is a verdict
			res.Err = "environment failure (not a verdict on the code under test): " + iorec.EnvFailure
			res.Violations = nil
		}
		js, _ := json.Marshal(res)
		out.WriteString("RESULT ")
		out.Write(js)
		out.WriteByte('\n')
		out.Flush()
	}
}

package main

import (
	"encoding/json"
	"fmt"
	"os"
)

// C04 — a batch is all-or-nothing and, once committed, durable.

func c04Staged() []Op {
	return []Op{
		{K: "put", Key: "a", VC: "S"},
		{K: "put", Key: "b", VC: "S"},
		{K: "del", Key: "a"},
		{K: "del", Key: "b"},
		{K: "put", Key: "a", VC: "L"},
		{K: "put", Key: "b", VC: "L"},
	}
}

func c04Bodies(maxLen int) [][]Op {
	var out [][]Op
	st := c04Staged()
	var gen func(p []Op)
	gen = func(p []Op) {
		if len(p) > 0 {
			out = append(out, append([]Op{}, p...))
		}
		if len(p) == maxLen {
			return
		}
		for _, o := range st {
			gen(append(p, o))
		}
	}
	gen(nil)
	return out
}

func c04Pre() []Op {
	return []Op{{K: "put", Key: "a", VC: "S"}, {K: "put", Key: "b", VC: "S"}, {K: "put", Key: "a", VC: "L"}, {K: "del", Key: "a"}}
}

func c04Post() []Op {
	return []Op{{K: "put", Key: "a", VC: "S"}, {K: "del", Key: "b"}, {K: "merge"}, {K: "restart"}, {K: "put", Key: "b", VC: "L"}}
}

func seqsUpTo(alpha []Op, n int) [][]Op {
	out := [][]Op{{}}
	var gen func(p []Op)
	gen = func(p []Op) {
		if len(p) == n {
			return
		}
		for _, o := range alpha {
			q := append(append([]Op{}, p...), o)
			out = append(out, q)
			gen(q)
		}
	}
	gen(nil)
	return out
}

// runC04 judges one workload pre ++ [batch] ++ post. from = index of the batch.
func runC04(cfg Cfg, keys []string, ops []Op, from int, res *TaskResult) *Violation {
	// (i) + (iii): crash instants inside and after Commit, process death and power loss
	run := recordCrashRun(cfg, keys, ops, from, res)
	if run.Err != "" {
		res.count("workload_failed", 1)
		return nil
	}
	res.count("crash_points", int64(len(run.Points)))
	if v := judgeCrash("C04", cfg, keys, ops, from, run, res, true); v != nil {
		return v
	}
	// (ii): visibility and clean-restart durability, also through merge + adoption
	for _, tail := range [][]Op{{{K: "restart"}, {K: "restart"}}, {{K: "merge"}, {K: "restart"}, {K: "restart"}}, {{K: "merge", Arg: 1}, {K: "restart"}, {K: "put", Key: "b", VC: "S"}, {K: "restart"}}} {
		full := append(append([]Op{}, ops...), tail...)
		v := RunTrace(cfg, keys, full, res, func(w *World, i int, op Op, ar ApplyResult) *Violation {
			if i < from {
				return nil
			}
			if errClass(ar.Err) == "panic" {
				return viol("C04", "panic", "panic:"+op.K, fmt.Sprintf("step %d %s: %s", i, op, panicDetail(ar.Err)))
			}
			if ar.Clause != "" {
				return viol("C04", "after-batch:"+ar.Clause, "after-batch:"+ar.Clause, fmt.Sprintf("step %d %s: %s", i, op, ar.Detail))
			}
			res.Evals++
			if c, d := w.CheckReads(); c != "" {
				return viol("C04", "after-batch:"+c, "after-batch:"+c+":"+op.K, fmt.Sprintf("step %d %s (batch at step %d): %s\nmodel=%s", i, op, from, d, modelString(w.Model)))
			}
			return nil
		})
		if v != nil {
			v.Detail = fmt.Sprintf("cfg=%s trace=[%s]\n%s", cfg, traceString(full), v.Detail)
			v.Replay = mustJSON(seqReplay{Engine: "seq", Prop: "C04", Cfg: cfg, Keys: keys, Ops: full, Trace: traceString(full), Extra: from})
			return v
		}
	}
	if len(ops[from].Sub) > 1 {
		res.Nontrivial++
	}
	return nil
}

func c04Tasks(tier string) []Task {
	bodyLen, preLen, postLen := 2, 1, 1
	if tier == "thorough" {
		bodyLen, preLen, postLen = 3, 2, 1
	}
	bodies := c04Bodies(bodyLen)
	if tier == "quick" {
		pairCutCap = 1024
		// plus the 3-operation bodies that overflow DataFileSize mid-way or repeat a key
		p := func(k, vc string) Op { return Op{K: "put", Key: k, VC: vc} }
		d := func(k string) Op { return Op{K: "del", Key: k} }
		bodies = append(bodies, []Op{p("a", "L"), p("b", "L"), p("a", "S")}, []Op{p("a", "L"), p("b", "L"), d("a")}, []Op{p("a", "S"), d("a"), p("a", "S")}, []Op{p("a", "L"), p("b", "L"), p("a", "L"), p("b", "L")})
	}
	pres := seqsUpTo(c04Pre(), preLen)
	posts := seqsUpTo(c04Post(), postLen)
	cfgs := []Cfg{defaultCfg}
	c200 := defaultCfg
	c200.FileSize = 200
	mm := defaultCfg
	mm.IO = 1 // MMap: lost bytes read as zeros, files keep their mapped size
	cfgs = append(cfgs, c200, mm)
	var tasks []Task
	for _, cfg := range cfgs {
		for bi, body := range bodies {
			if cfg.IO == 1 && tier == "quick" && bi%4 != 0 {
				continue // quick tier: every fourth body under MMap
			}
			cfg, body, bi := cfg, body, bi
			tasks = append(tasks, Task{Level: fmt.Sprintf("body<=%d-pre<=%d-post<=%d", bodyLen, preLen, postLen), Name: fmt.Sprintf("%s body#%d [%s]", cfg, bi, traceString(body)), Fn: func(res *TaskResult) {
				for _, syncOpt := range []int{0, 1} {
					for _, pre := range pres {
						if (cfg.IO == 1 || cfg.FileSize != defaultCfg.FileSize) && len(pre) > 1 {
							continue // MMap and DataFileSize 200: pre-histories of at most one operation (thorough tier sizing)
						}
						for _, post := range posts {
							ops := append(append(append([]Op{}, pre...), Op{K: "batch", Sub: body, Arg: syncOpt}), post...)
							announce(func() string { return cfg.String() + " :: " + traceString(ops) })
							v := runC04(cfg, keysAB, ops, len(pre), res)
							if v != nil {
								v.Prop = "C04"
								res.Violations = append(res.Violations, *v)
								return
							}
							if len(res.Samples) == 0 {
								res.Samples = append(res.Samples, cfg.String()+" :: "+traceString(ops)+" (crash at every I/O event from the batch on; cuts of unsynced tails)")
							}
						}
					}
				}
			}})
		}
	}
	// block family: batches whose flush (ONE write of several records, a running cursor) meets a 32 KiB block
	// boundary - a staged record ending 3 bytes before / exactly on a block end with records behind it, a 3-block value
	// as a non-first record. Cuts next to block boundaries and record ends (the C03 block filter)
	blk := blockCfg()
	pb := func(k, vc string, arg int) Op { return Op{K: "put", Key: k, VC: vc, Arg: arg} }
	for bi, body := range [][]Op{
		{pb("b", "B", 11), pb("a", "S", 0)},
		{pb("b", "B", 8), pb("a", "S", 0), {K: "del", Key: "b"}},
		{pb("a", "S", 0), pb("b", "M", 0)},
		{pb("b", "B", 11), pb("a", "F", 40000)},
	} {
		body, bi := body, bi
		tasks = append(tasks, Task{Level: "block-bodies", Name: fmt.Sprintf("%s block body#%d [%s]", blk, bi, traceString(body)), Fn: func(res *TaskResult) {
			cutFilter = func(n, from, to int64) bool {
				off := n % 32768
				return off <= 16 || off >= 32768-16 || n-from <= 16 || to-n <= 16 || n%4096 == 0
			}
			defer func() { cutFilter = nil }()
			for _, syncOpt := range []int{0, 1} {
				for _, pre := range [][]Op{{}, {pb("a", "S", 0)}, {pb("b", "F", 20000)}} {
					for _, post := range [][]Op{{}, {pb("a", "S", 0)}, {{K: "restart"}}} {
						ops := append(append(append([]Op{}, pre...), Op{K: "batch", Sub: body, Arg: syncOpt}), post...)
						announce(func() string { return blk.String() + " :: " + traceString(ops) })
						if v := runC04(blk, keysAB, ops, len(pre), res); v != nil {
							v.Prop = "C04"
							res.Violations = append(res.Violations, *v)
							return
						}
					}
				}
			}
		}})
	}
	return tasks
}

func init() {
	register(&Check{
		Prop:   "C04",
		Engine: "crash",
		Rule:   "pre-history x ONE batch (all bodies up to the bound, BatchOptions.Sync false/true) x post-history: a crash image after every I/O event from the batch on (inside Commit and after it), recovered as is (process death) and with every admissible cut of unsynced tails (power loss); the recovered dump must equal S_j exactly (a half-applied batch equals no S_j) within the acknowledgement / durability window; plus live and clean-restart visibility after Commit, through Merge (both scan orders) + adopting restart + further restarts. non-trivial = batch bodies with more than one operation",
		Assumptions: []string{
			"Standard I/O with DataFileSize 130 (two staged S puts overflow mid-way) and 200; MMap with 130 (quick tier: every fourth body; thorough tier: pre-histories of two operations under Standard I/O with DataFileSize 130 only)",
			"crash model of C03",
		},
		Tasks: c04Tasks,
		Bounds: func(tier string) map[string]any {
			if tier == "quick" {
				return map[string]any{"body_ops": "<=2 (all 42) + 4 selected 3-4 op bodies", "pre_history": "<=1 of 4 ops", "post_history": "<=1 of 5 ops", "batch_sync": 2, "configs": 2}
			}
			return map[string]any{"body_ops": "<=3 (all 258)", "pre_history": "<=2 of 4 ops", "post_history": "<=1 of 5 ops", "batch_sync": 2, "configs": 2}
		},
		Replay: func(raw json.RawMessage) {
			var m map[string]any
			json.Unmarshal(raw, &m)
			var res TaskResult
			if m["engine"] == "crash" {
				var r crashReplay
				json.Unmarshal(raw, &r)
				if v := runC04(r.Cfg, r.Keys, r.Ops, r.From, &res); v != nil {
					fmt.Printf("VIOLATION clause=%s\n%s\n", v.Clause, v.Detail)
					os.Exit(1)
				}
				fmt.Println("no violation on this tree")
				return
			}
			seqReplayMain(raw, runC01)
		},
	})
}

// instrument rewrites the import paths of the packages under test so that sync, sync/atomic, os,
// time (package datatype only), mmap-go and flock resolve to the verification shims, and emits a
// `go build -overlay` file. Nothing in the repository is touched.
//
//	instrument -repo /repo -rt /verif/rt -virt /verif/overlay -out /dev/shm/x
//
// writes /dev/shm/x/src/... (rewritten copies) and /dev/shm/x/overlay.json.
package main

import (
	"encoding/json"
	"flag"
	"fmt"
	"go/ast"
	"go/build"
	"go/parser"
	"go/printer"
	"go/token"
	"os"
	"os/exec"
	"path/filepath"
	"strconv"
	"strings"
)

const modPath = "github.com/XiXi-2024/xixi-kv"

var pkgs = []string{".", "datafile", "fio", "index", "utils", "datatype"}

var rewrite = map[string]string{
	"sync":                      modPath + "/verifrt/vsync",
	"sync/atomic":               modPath + "/verifrt/vatomic",
	"os":                        modPath + "/verifrt/vos",
	"github.com/edsrzf/mmap-go": modPath + "/verifrt/vmmap",
	"github.com/gofrs/flock":    modPath + "/verifrt/vflock",
}

var defaultName = map[string]string{
	"sync": "sync", "sync/atomic": "atomic", "os": "os", "time": "time",
	"github.com/edsrzf/mmap-go": "mmap", "github.com/gofrs/flock": "flock",
}

// moduleDir asks the go command where a dependency of the repository lives ("" if unknown).
func moduleDir(repo, mod string) string {
	cmd := exec.Command("go", "list", "-m", "-f", "{{.Dir}}", mod)
	cmd.Dir = repo
	out, err := cmd.Output()
	if err != nil {
		return ""
	}
	return strings.TrimSpace(string(out))
}

func main() {
	repo := flag.String("repo", "/repo", "repository root")
	rt := flag.String("rt", "/verif/rt", "shim sources")
	virt := flag.String("virt", "/verif/overlay", "virtual files (relative layout under repo; *.go.txt -> *.go)")
	out := flag.String("out", "", "scratch output directory")
	flag.Parse()
	if *out == "" {
		fmt.Fprintln(os.Stderr, "instrument: -out required")
		os.Exit(2)
	}
	replace := map[string]string{}
	fset := token.NewFileSet()
	for _, p := range pkgs {
		dir := filepath.Join(*repo, p)
		ctx := build.Default
		bp, err := ctx.ImportDir(dir, 0)
		if err != nil {
			if _, ok := err.(*build.NoGoError); ok {
				continue
			}
			if bp == nil || len(bp.GoFiles) == 0 {
				fmt.Fprintf(os.Stderr, "instrument: %s: %v\n", dir, err)
				continue
			}
		}
		for _, name := range bp.GoFiles {
			src := filepath.Join(dir, name)
			f, err := parser.ParseFile(fset, src, nil, parser.ParseComments)
			if err != nil {
				fmt.Fprintf(os.Stderr, "instrument: %v\n", err)
				os.Exit(2)
			}
			changed := false
			for _, imp := range f.Imports {
				path, _ := strconv.Unquote(imp.Path.Value)
				np, ok := rewrite[path]
				if !ok && path == "time" && (p == "datatype" || p == ".") { // "." : the ticker of the background merge
					np, ok = modPath+"/verifrt/vtime", true
				}
				if !ok {
					continue
				}
				if imp.Name == nil {
					imp.Name = ast.NewIdent(defaultName[path])
				}
				imp.Path.Value = strconv.Quote(np)
				imp.EndPos = 0
				changed = true
			}
			// own the iteration order of `for _, f := range <x>.olderFiles` (package root only): the
			// harness chooses the permutation (sched.MapPerm), so Merge's scan order is enumerable.
			if p == "." {
				ast.Inspect(f, func(n ast.Node) bool {
					rs, ok := n.(*ast.RangeStmt)
					if !ok || rs.Value == nil {
						return true
					}
					if id, ok := rs.Key.(*ast.Ident); !ok || id.Name != "_" {
						return true
					}
					sel, ok := rs.X.(*ast.SelectorExpr)
					if !ok || sel.Sel.Name != "olderFiles" {
						return true
					}
					rs.X = &ast.CallExpr{Fun: ast.NewIdent("verifMapOrder"), Args: []ast.Expr{rs.X}}
					changed = true
					return true
				})
			}
			// fio: (*MMap).Write copies into the mapping and is invisible at the os level: rename it and
			// let the virtual file fio/verif_wrap.go supply a recording wrapper of the same name.
			if p == "fio" {
				for _, d := range f.Decls {
					fd, ok := d.(*ast.FuncDecl)
					if !ok || fd.Recv == nil || len(fd.Recv.List) != 1 || fd.Name.Name != "Write" {
						continue
					}
					if st, ok := fd.Recv.List[0].Type.(*ast.StarExpr); ok {
						if id, ok := st.X.(*ast.Ident); ok && id.Name == "MMap" {
							fd.Name.Name = "verifOrigWrite"
							changed = true
						}
					}
				}
			}
			if !changed {
				continue
			}
			dst := filepath.Join(*out, "src", p, name)
			if err := os.MkdirAll(filepath.Dir(dst), 0o755); err != nil {
				panic(err)
			}
			w, err := os.Create(dst)
			if err != nil {
				panic(err)
			}
			if err := printer.Fprint(w, fset, f); err != nil {
				panic(err)
			}
			w.Close()
			replace[src] = dst
		}
	}
	// third-party: the snowflake id generator (batch ids) reads the wall clock; its "time" import is
	// rewritten to the harness-owned clock so that batch ids are a deterministic function of the execution.
	if dir := moduleDir(*repo, "github.com/bwmarrin/snowflake"); dir != "" {
		src := filepath.Join(dir, "snowflake.go")
		if f, err := parser.ParseFile(fset, src, nil, parser.ParseComments); err == nil {
			// time.Now() -> verifNow(), time.Since(x) -> verifNow().Sub(x); verifNow lives in a virtual file of
			// the same package and defaults to time.Now (the harness points it at its own clock)
			ast.Inspect(f, func(n ast.Node) bool {
				call, ok := n.(*ast.CallExpr)
				if !ok {
					return true
				}
				sel, ok := call.Fun.(*ast.SelectorExpr)
				if !ok {
					return true
				}
				if id, ok := sel.X.(*ast.Ident); !ok || id.Name != "time" {
					return true
				}
				switch sel.Sel.Name {
				case "Now":
					call.Fun = ast.NewIdent("verifNow")
				case "Since":
					arg := call.Args[0]
					call.Fun = &ast.SelectorExpr{X: &ast.CallExpr{Fun: ast.NewIdent("verifNow")}, Sel: ast.NewIdent("Sub")}
					call.Args = []ast.Expr{arg}
				}
				return true
			})
			dst := filepath.Join(*out, "src", "_snowflake", "snowflake.go")
			os.MkdirAll(filepath.Dir(dst), 0o755)
			if w, err := os.Create(dst); err == nil {
				printer.Fprint(w, fset, f)
				// (files cannot be ADDED to a module-cache package through the overlay, so the clock seam is appended)
				fmt.Fprint(w, "\n// VerifNow is the clock of the id generator (appended by the verification overlay).\nvar VerifNow = time.Now\n\nfunc verifNow() time.Time { return VerifNow() }\n")
				w.Close()
				replace[src] = dst
			}
		}
	}
	// shims: <rt>/<pkg>/*.go -> <repo>/verifrt/<pkg>/*.go
	filepath.Walk(*rt, func(path string, info os.FileInfo, err error) error {
		if err != nil || info.IsDir() || !strings.HasSuffix(path, ".go") || strings.HasSuffix(path, "_test.go") {
			return nil
		}
		rel, _ := filepath.Rel(*rt, path)
		replace[filepath.Join(*repo, "verifrt", rel)] = path
		return nil
	})
	// virtual files: <virt>/<rel>.go.txt -> <repo>/<rel>.go
	filepath.Walk(*virt, func(path string, info os.FileInfo, err error) error {
		if err != nil || info.IsDir() || !strings.HasSuffix(path, ".go.txt") {
			return nil
		}
		rel, _ := filepath.Rel(*virt, path)
		replace[filepath.Join(*repo, strings.TrimSuffix(rel, ".txt"))] = path
		return nil
	})
	js, _ := json.MarshalIndent(map[string]any{"Replace": replace}, "", " ")
	if err := os.WriteFile(filepath.Join(*out, "overlay.json"), js, 0o644); err != nil {
		panic(err)
	}
}

package sched

import (
	"fmt"
	"runtime/debug"
)

func panicString(r any) string {
	return fmt.Sprintf("%v\n%s", r, debug.Stack())
}

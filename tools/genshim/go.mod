module verif/tools/genshim

go 1.23

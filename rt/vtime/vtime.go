// Package vtime replaces "time" in package datatype: Now() is a harness-owned, strictly monotone clock.
package vtime

import "time"

type (
	Time     = time.Time
	Duration = time.Duration
	Month    = time.Month
	Weekday  = time.Weekday
	Location = time.Location
	Timer    = time.Timer
	Ticker   = time.Ticker
)

const (
	Nanosecond  = time.Nanosecond
	Microsecond = time.Microsecond
	Millisecond = time.Millisecond
	Second      = time.Second
	Minute      = time.Minute
	Hour        = time.Hour

	RFC3339     = time.RFC3339
	RFC3339Nano = time.RFC3339Nano
)

var (
	UTC   = time.UTC
	Local = time.Local
)

// Owned selects the harness clock; when false Now() is the real clock.
var Owned bool

var now = time.Unix(1_700_000_000, 0)

// Reset puts the harness clock back to its fixed origin.
func Reset() { now = time.Unix(1_700_000_000, 0) }

// Advance moves the harness clock forward.
func Advance(d time.Duration) { now = now.Add(d) }

// Now. //go:norace: under the controlled scheduler exactly one thread runs at a time; the clock is harness
// state, not program state (the baton hand-off is deliberately invisible to the race detector).
//
//go:norace
func Now() time.Time {
	if !Owned {
		return time.Now()
	}
	now = now.Add(time.Microsecond)
	return now
}

func Since(t Time) Duration           { return Now().Sub(t) }
func Until(t Time) Duration           { return t.Sub(Now()) }
func Unix(sec int64, nsec int64) Time { return time.Unix(sec, nsec) }
func UnixMilli(msec int64) Time       { return time.UnixMilli(msec) }
func UnixMicro(usec int64) Time       { return time.UnixMicro(usec) }
func Sleep(d Duration)                { time.Sleep(d) }
func After(d Duration) <-chan Time    { return time.After(d) }
func Tick(d Duration) <-chan Time     { return time.Tick(d) }
func NewTimer(d Duration) *Timer      { return time.NewTimer(d) }

// TickerPeriod, when non-zero, replaces the period of every ticker the code under test creates (the background
// merge ticks once per second: the harness makes it tick every few hundred microseconds).
var TickerPeriod Duration

func NewTicker(d Duration) *Ticker {
	if TickerPeriod != 0 {
		d = TickerPeriod
	}
	return time.NewTicker(d)
}
func AfterFunc(d Duration, f func()) *Timer { return time.AfterFunc(d, f) }
func ParseDuration(s string) (Duration, error) {
	return time.ParseDuration(s)
}
func Parse(layout, value string) (Time, error) { return time.Parse(layout, value) }
func Date(year int, month Month, day, hour, min, sec, nsec int, loc *Location) Time {
	return time.Date(year, month, day, hour, min, sec, nsec, loc)
}

#!/usr/bin/env python3
"""tools/boundstable.py <thorough-log> : prints the DESIGN.md §10.3 table from /verif/evidence/*.json (quick tier, last run)
and a log of thorough runs (lines 'Cxx thorough: tasks=.. execs=.. ... exhaustive=.. wall=..s')."""
import json, re, sys, glob
th = {}
if len(sys.argv) > 1:
    for l in open(sys.argv[1], errors="replace"):
        m = re.match(r"(C\d+) thorough: tasks=(\d+) execs=(\d+) .*exhaustive=(\w+) wall=([\d.]+)s", l)
        if m:
            th[m.group(1)] = (int(m.group(2)), int(m.group(3)), m.group(4), float(m.group(5)))
def human(n):
    for u, d in (("G", 1e9), ("M", 1e6), ("k", 1e3)):
        if n >= d:
            return f"{n/d:.1f} {u}"
    return str(n)
print("| | quick: s / executions | levels the quick tier completes (tasks done/total) | thorough: s / executions / exhaustive |")
print("|---|---|---|---|")
for f in sorted(glob.glob("/verif/evidence/C*.json")):
    e = json.load(open(f)); c = e["coverage"]; p = e["property_id"]
    lv = ", ".join(f"`{k}` {v}" for k, v in sorted(c.get("levels_completed", {}).items()))
    t = th.get(p)
    tt = f"{t[3]:.0f} / {human(t[1])} / {t[2]}" if t else "-"
    print(f"| {p} | {e['wall_s']:.0f} / {human(c['traces_validated_against_impl'])}{'' if c['exhaustive'] else ' (not exhaustive!)'} ({e['tier']}) | {lv} | {tt} |")

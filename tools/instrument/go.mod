module verif/tools/instrument

go 1.23

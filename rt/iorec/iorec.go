// Package iorec is the I/O event seam between the vos / vmmap / vflock / fio shims and the harness.
// Every mutating file-system call of the code under test goes through Do: the harness may inject an
// error *instead of* the call (Before), and observes the completed call (After) — where it logs the
// event and may snapshot the directories (crash image).
package iorec

import (
	"errors"
	"syscall"

	"github.com/XiXi-2024/xixi-kv/verifrt/sched"
)

type Event struct {
	Seq   int
	Op    string // open create write writeat sync truncate close remove removeall rename mkdir mkdirall writefile mmap msync munmap rw.write rw.sync rw.close flock funlock
	Path  string
	Path2 string
	Off   int64
	N     int64
	Err   string
}

var (
	// Before, when non-nil, is consulted before a call is performed; a non-nil error is returned to
	// the caller and the call is NOT performed.
	Before func(op, path, path2 string, n int64) error
	// After, when non-nil, receives every completed (or injected-failed) call.
	After func(ev *Event)
	// SchedPoints makes every I/O call a schedule point (C16 racing Opens).
	SchedPoints bool

	seq int

	// EnvFailure is set when a REAL call (not an injected fault) failed for lack of a machine resource
	// (memory, mappings, descriptors, space): whatever the execution then observes says nothing about the
	// code under test, so the harness reports a harness error instead of a verdict.
	EnvFailure string
)

// ShortWrite, returned by Before for a write, makes the shim perform the FIRST N bytes of the write for real and
// then return the error (a device that fills up in the middle of a write).
type ShortWrite struct{ N int }

func (s *ShortWrite) Error() string {
	return "injected: short write (the device stored only part of the data)"
}

func noteEnv(op, path string, err error) {
	if err == nil || EnvFailure != "" {
		return
	}
	for _, e := range []error{syscall.ENOMEM, syscall.EMFILE, syscall.ENFILE, syscall.ENOSPC} {
		if errors.Is(err, e) {
			EnvFailure = op + " " + path + ": " + err.Error()
			return
		}
	}
}

func Reset() { seq = 0 }

func Seq() int { return seq }

func Do(op, path, path2 string, off, n int64, f func() error) error {
	if SchedPoints {
		sched.Yield()
	}
	if Before == nil && After == nil {
		err := f()
		noteEnv(op, path, err)
		return err
	}
	var err error
	injected := false
	if Before != nil {
		if err = Before(op, path, path2, n); err != nil {
			injected = true
		}
	}
	if !injected {
		err = f()
		noteEnv(op, path, err)
	}
	if After != nil {
		ev := &Event{Seq: seq, Op: op, Path: path, Path2: path2, Off: off, N: n}
		if err != nil {
			ev.Err = err.Error()
		}
		seq++
		After(ev)
	}
	return err
}

package main

import (
	"encoding/json"
	"errors"
	"fmt"
	"os"
	"path/filepath"
	"strings"

	kv "github.com/XiXi-2024/xixi-kv"
)

// C12 — damaged bytes are detected or harmless, never served as data and never a panic.

type c12Image struct {
	Name  string
	Cfg   Cfg
	Trace string
	Dense bool     // small image: every byte is faulted; otherwise only bytes near chunk headers + a stride
	Ops   []Op     // instead of Trace (keys that cannot be typed)
	Keys  []string // key universe (default a, b)
}

func c12Images(tier string) []c12Image {
	blk := blockCfg()
	imgs := []c12Image{
		{Name: "plain+tombstone", Cfg: defaultCfg, Trace: "put a S; put b S; put a S; del b; put b L", Dense: true},
		{Name: "batch", Cfg: defaultCfg, Trace: "put a S; batch[put a S, put b S, del a]; put a S", Dense: true},
		{Name: "rotated", Cfg: defaultCfg, Trace: "put a L; put b L; put a L; del b", Dense: true},
		{Name: "merge-unadopted", Cfg: defaultCfg, Trace: "put a L; put b L; put a S; del b; put b S; merge", Dense: true},
		// two live records in ONE rewritten file that is indexed through the hint only: the second one sits at an offset a
		// truncated file no longer has
		{Name: "hint-indexed-offsets", Cfg: roomyCfg(), Trace: "put b S; put a S; put b S; merge; restart", Dense: true},
		// ... and the same in a rewritten file that is NOT the last one (the last one is scanned again by Open, the others
		// are reached through the hint alone): DataFileSize 70 holds two records per file, three live keys
		{Name: "hint-indexed-first-file", Cfg: megCfg(70), Keys: keysABC, Trace: "put a S; put b S; put c S; put a S; merge; restart", Dense: true},
		// the hint is used by the ADOPTING Open only: the same merge, not yet adopted (the damage is in the merge directory)
		{Name: "hint-indexed-first-file-unadopted", Cfg: megCfg(70), Keys: keysABC, Trace: "put a S; put b S; put c S; put a S; merge", Dense: true},
		{Name: "merge-adopted", Cfg: defaultCfg, Trace: "put a L; put b L; put a S; merge; restart; put b S", Dense: true},
		// two rewritten files: the first one is indexed through the hint only (never scanned by the adopting Open)
		{Name: "merge-unadopted-2files", Cfg: defaultCfg, Trace: "put a L; put b L; put a L; put b L; merge", Dense: true},
		// small records deep inside a 32 KiB block (a damaged chunk length can reach beyond the block there)
		{Name: "deep-in-block", Cfg: blk, Trace: "put b F 20000; put a S; put b S; put a F 9000; put b S; put a S"},
		{Name: "multi-chunk", Cfg: blk, Trace: "put a S; put b M; put a S; put b B 3; put a S"},
		// files of five blocks (one 150 000-byte value): whole blocks zeroed in the middle, data behind them
		{Name: "five-blocks-active", Cfg: megCfg(1 << 20), Trace: "put a S; put b F 150000; put a S; put b S"},
		{Name: "five-blocks-older", Cfg: megCfg(200000), Trace: "put a S; put b F 150000; put a S; put b F 100000"},
		// the active file spans two blocks: damage in its first block is not a torn tail
		// a LIVE record of three chunks (and a record behind it) in a file that is no longer the active one
		{Name: "older-multi-chunk-live", Cfg: blk, Trace: "put a S; put b M; put a S; put a F 40000"},
		{Name: "active-2-blocks", Cfg: blk, Trace: "put a S; put b F 40000; put a S; put b S"},
	}
	if tier == "thorough" {
		bt := defaultCfg
		bt.Index = 1
		imgs = append(imgs,
			c12Image{Name: "batch-overflow", Cfg: defaultCfg, Trace: "batch[put a L, put b L, put a S]; del a", Dense: true},
			c12Image{Name: "btree-plain", Cfg: bt, Trace: "put a S; put b S; del a; put a L", Dense: true},
			c12Image{Name: "empty-values", Cfg: defaultCfg, Trace: "put a E; put b S; put a E", Dense: true},
			// hint records that span block boundaries (two 20 000-byte keys), finished merge not yet adopted / adopted
			c12Image{Name: "long-key-hint-unadopted", Cfg: longKeyCfgs()[2], Keys: c18LongKeys, Trace: "put K S; put L S; put m S; put K S; merge",
				Ops: []Op{{K: "put", Key: c18LongKeys[0], VC: "S"}, {K: "put", Key: c18LongKeys[1], VC: "S"}, {K: "put", Key: "m", VC: "S"}, {K: "put", Key: c18LongKeys[0], VC: "S"}, {K: "merge"}}},
			c12Image{Name: "long-key-hint-adopted", Cfg: longKeyCfgs()[0], Keys: c18LongKeys, Trace: "put K S; put L S; put m S; merge; restart; put m S",
				Ops: []Op{{K: "put", Key: c18LongKeys[0], VC: "S"}, {K: "put", Key: c18LongKeys[1], VC: "S"}, {K: "put", Key: "m", VC: "S"}, {K: "merge"}, {K: "restart"}, {K: "put", Key: "m", VC: "S"}}},
		)
	}
	return imgs
}

func megCfg(fs int64) Cfg {
	c := defaultCfg
	c.FileSize = fs
	return c
}

func roomyCfg() Cfg {
	c := defaultCfg
	c.FileSize = 1000
	return c
}

type builtImage struct {
	snap   *Snap
	hist   map[string]map[string]bool
	keys   []string
	starts map[string][]int // rel path -> byte offsets at which records start (from the package's reader)
	// the sharper oracle's ground truth, from the harness's own walk over the chunk framing of the UNDAMAGED files
	final  map[string]string   // mapping at Close
	prefix []map[string]string // mapping after every operation of the trace (prefix[0] = empty)
	ext    map[string][][2]int // rel path -> [start,end) of every record (data and hint files)
	newest string              // rel path of the data file that was active at Close
}

// recordExtents walks the chunk framing (crc 4, length 2 LE, type 1; types Full 0 First 1 Middle 2 Last 3; a block
// tail too short for a header plus one byte is padding) of an undamaged file. ok=false if the walk does not end
// exactly at the end of the file.
func recordExtents(data []byte) (ext [][2]int, ok bool) {
	const bs, hdr = 32768, 7
	o, n := 0, len(data)
	for o < n {
		if o%bs+hdr >= bs {
			o = (o/bs + 1) * bs // padding
			continue
		}
		start := o
		for {
			if o+hdr > n {
				return ext, false
			}
			l := int(data[o+4]) | int(data[o+5])<<8
			t := data[o+6]
			o += hdr + l
			if o > n {
				return ext, false
			}
			if t == 0 || t == 3 {
				break
			}
			if o%bs != 0 {
				return ext, false
			}
		}
		ext = append(ext, [2]int{start, o})
	}
	return ext, true
}

// sigKind: the fault kind used in violation signatures. Two kinds get a name of their own because they are exactly
// what the open findings KF-4 / KF-5 are about: whole blocks zeroed ("zblocks"), and a block that lies completely
// inside one record replaced by another such block of the SAME record ("midswap": both are Middle chunks with valid
// checksums).
func (bi *builtImage) sigKind(f fault) string {
	if f.Kind == "block" && f.Arg >= 0 {
		inner := func(b int) int {
			for i, e := range bi.ext[f.File] {
				if e[0] < b*32768 && (b+1)*32768 < e[1] {
					return i
				}
			}
			return -1
		}
		if a, b := inner(f.Pos), inner(f.Arg); a >= 0 && a == b {
			return "midswap"
		}
	}
	return f.Kind
}

// faultClass: how the oracle treats a fault.
//
//	"strict":  Open fails, or every key maps to its final value / is reported not found exactly when absent, or the
//	           read returns an error; ListKeys is exactly the final key set
//	"tail":    the file that was active at Close is cut inside a record, or damaged in its final block: the torn-tail
//	           recovery C03 demands may drop everything from the damaged record on: the mapping seen is the one after
//	           SOME prefix of the trace (one prefix for all keys), or errors
//	"shorter": the faulted file is itself a well-formed shorter file (cut between two records / zero-filled from there
//	           to its end): nothing in the format can tell - only "never bytes that were not written for this key"
func (bi *builtImage) faultClass(f fault) string {
	ext := bi.ext[f.File]
	n := len(bi.snap.Files[f.File])
	inside := func(p int) bool { // strictly inside a record
		for _, e := range ext {
			if e[0] < p && p < e[1] {
				return true
			}
		}
		return false
	}
	switch f.Kind {
	case "trunc":
		if !inside(f.Pos) {
			return "shorter"
		}
	case "run":
		if f.Val == 0 && f.Pos+f.Arg >= n && !inside(f.Pos) {
			return "shorter"
		}
	case "block":
		if f.Arg == -1 && (f.Pos+1)*32768 >= n && !inside(f.Pos*32768) {
			return "shorter"
		}
	case "zblocks":
		if (f.Pos+f.Arg)*32768+f.Val >= n && !inside(f.Pos*32768) {
			return "shorter"
		}
	}
	if f.File == bi.newest {
		// a cut inside a record IS a torn tail; so is - to any reader - damage in the final block that makes a record
		// look incomplete (a length field pointing past the end of the file, a checksum mismatch with nothing behind)
		pos := f.Pos
		if f.Kind == "block" {
			pos = f.Pos * 32768
		}
		if f.Kind == "zblocks" {
			pos = (f.Pos+f.Arg)*32768 + f.Val - 1 // the last zeroed byte
			if pos >= n {
				pos = n - 1
			}
		}
		if f.Kind == "trunc" || pos/32768 == (n-1)/32768 {
			return "tail"
		}
	}
	return "strict"
}

func buildImage(im c12Image) (*builtImage, error) {
	beginExecution()
	keys := im.Keys
	if keys == nil {
		keys = keysAB
	}
	w := NewWorld(im.Cfg, keys)
	defer w.Destroy()
	if err := w.Open(); err != nil {
		return nil, err
	}
	prefix := []map[string]string{{}}
	ops := im.Ops
	if ops == nil {
		ops = parseTrace(im.Trace)
	}
	for _, op := range ops {
		if ar := w.Apply(op); ar.Err != nil || w.Dead {
			return nil, fmt.Errorf("building image %s: %s failed: %v", im.Name, op, ar.Err)
		}
		prefix = append(prefix, copyModel(w.Model))
	}
	if err := w.Close(); err != nil {
		return nil, err
	}
	bi := &builtImage{snap: takeSnap(w.Root), hist: w.Hist, keys: keys, starts: map[string][]int{},
		final: copyModel(w.Model), prefix: prefix, ext: map[string][][2]int{}}
	for _, rel := range sortedKeys(bi.snap.Files) {
		if !(strings.HasSuffix(rel, ".data") || strings.HasSuffix(rel, ".hint")) {
			continue
		}
		ext, ok := recordExtents(bi.snap.Files[rel])
		if !ok {
			return nil, fmt.Errorf("building image %s: the harness's walk over the chunk framing of %s does not end at the end of the file", im.Name, rel)
		}
		bi.ext[rel] = ext
		if strings.HasPrefix(rel, "db/") && strings.HasSuffix(rel, ".data") && rel > bi.newest {
			bi.newest = rel
		}
	}
	for _, dir := range []string{"db", "db-merge"} {
		files, err := scanDataFiles(filepath.Join(w.Root, dir))
		if err != nil {
			continue
		}
		for _, f := range files {
			rel := fmt.Sprintf("%s/%09d.data", dir, f.Fid)
			for _, r := range f.Recs {
				bi.starts[rel] = append(bi.starts[rel], int(r.Pos.BlockID)*32768+int(r.Pos.Offset))
			}
		}
	}
	return bi, nil
}

// fault is one single-position fault of one file of the image.
type fault struct {
	File string `json:"file"`
	Kind string `json:"kind"` // flip sub run trunc block zblocks
	Pos  int    `json:"pos"`
	Arg  int    `json:"arg"` // bit / byte value / run length / source block
	Val  int    `json:"val"` // run fill value
}

func (f fault) String() string {
	return fmt.Sprintf("%s %s@%d arg=%d val=%d", f.File, f.Kind, f.Pos, f.Arg, f.Val)
}

func applyFault(s *Snap, f fault) *Snap {
	c := s.clone()
	data := append([]byte(nil), c.Files[f.File]...)
	switch f.Kind {
	case "flip":
		data[f.Pos] ^= 1 << uint(f.Arg)
	case "sub":
		data[f.Pos] = byte(f.Arg)
	case "run":
		for i := f.Pos; i < f.Pos+f.Arg && i < len(data); i++ {
			data[i] = byte(f.Val)
		}
	case "trunc":
		data = data[:f.Pos]
	case "zblocks": // Arg consecutive blocks from block Pos on are zeroed (plus Val further bytes)
		for i := f.Pos * 32768; i < (f.Pos+f.Arg)*32768+f.Val && i < len(data); i++ {
			data[i] = 0
		}
	case "block":
		blk := make([]byte, 32768)
		switch f.Arg {
		case -1:
		case -2:
			for i := range blk {
				blk[i] = 0xFF
			}
		default:
			copy(blk, data[f.Arg*32768:])
		}
		copy(data[f.Pos*32768:], blk)
	}
	c.Files[f.File] = data
	return c
}

// enumFaults enumerates the faults of one file.
func enumFaults(file string, data []byte, dense bool, starts []int, visit func(f fault) bool) {
	n := len(data)
	near := map[int]bool{}
	for _, s := range starts {
		for i := s; i < s+40 && i < n; i++ {
			near[i] = true // chunk header + record header of every record
		}
	}
	interesting := func(i int) bool {
		if dense {
			return true
		}
		// every record's framing, every block boundary region, the file end, and a coarse stride elsewhere
		off := i % 32768
		return near[i] || off < 96 || off >= 32768-96 || i >= n-160 || i%997 == 0
	}
	for i := 0; i < n; i++ {
		if !interesting(i) {
			continue
		}
		for b := 0; b < 8; b++ {
			if !visit(fault{File: file, Kind: "flip", Pos: i, Arg: b}) {
				return
			}
		}
		for _, v := range []int{0x00, 0xFF} {
			if int(data[i]) != v {
				if !visit(fault{File: file, Kind: "sub", Pos: i, Arg: v}) {
					return
				}
			}
		}
		for _, l := range []int{2, 4, 7, 8, 16, 64} {
			for _, v := range []int{0x00, 0xFF} {
				if !visit(fault{File: file, Kind: "run", Pos: i, Arg: l, Val: v}) {
					return
				}
			}
		}
	}
	for i := 0; i < n; i++ {
		if dense || interesting(i) {
			if !visit(fault{File: file, Kind: "trunc", Pos: i}) {
				return
			}
		}
	}
	nb := (n + 32767) / 32768
	for b := 0; b < nb; b++ {
		for _, k := range []int{2, 3} {
			for _, extra := range []int{0, 7, 100} {
				if (b+k)*32768+extra >= n && !(extra == 0 && (b+k)*32768 >= n && (b+k-1)*32768 < n) {
					continue // only runs with data behind them, and the one that exactly reaches the end
				}
				if !visit(fault{File: file, Kind: "zblocks", Pos: b, Arg: k, Val: extra}) {
					return
				}
			}
		}
	}
	if n >= 32768 {
		for b := 0; b < nb && (b+1)*32768 <= n; b++ {
			for _, src := range []int{-1, -2, b - 1, b + 1} {
				if src >= nb || (src >= 0 && (src+1)*32768 > n) || src == b || (src < 0 && src > -1) {
					continue
				}
				if src >= 0 || src == -1 || src == -2 {
					if !visit(fault{File: file, Kind: "block", Pos: b, Arg: src}) {
						return
					}
				}
			}
		}
	}
}

// judgeFaulted opens the faulted image and applies the oracle. Returns "" or a description + clause.
func judgeFaulted(bi *builtImage, cfg Cfg, s *Snap, class string, res *TaskResult) (clause, detail string) {
	imgSeq++
	root := filepath.Join(scratchRoot(), fmt.Sprintf("c12-%d", imgSeq))
	defer os.RemoveAll(root)
	if err := s.materialize(root); err != nil {
		return "", ""
	}
	res.Evals++
	// the sequential reader over every data file: only written records or an error, never a panic
	for _, dir := range []string{"db", "db-merge"} {
		files, err := scanDataFiles(filepath.Join(root, dir))
		if err != nil {
			continue
		}
		for _, f := range files {
			if strings.HasPrefix(f.ScanErr, "panic") {
				return "reader-panic", fmt.Sprintf("sequential reader on %s/%09d.data: %s", dir, f.Fid, f.ScanErr)
			}
			for _, r := range f.Recs {
				if r.Type == 2 { // sealing record
					continue
				}
				if !bi.hist[r.Key][r.Value] && !(r.Type == 1 && bi.hist[r.Key] != nil) {
					return "reader-foreign-record", fmt.Sprintf("sequential reader on %s/%09d.data returned a record (type %d key %q value %s) that was never written", dir, f.Fid, r.Type, truncate(r.Key, 12), short(r.Value))
				}
			}
		}
	}
	w := &World{Cfg: cfg, Root: root, Dir: filepath.Join(root, "db"), Model: map[string]string{}, Keys: bi.keys, Cnt: map[string]int64{}, Hist: map[string]map[string]bool{}}
	err := w.Open()
	if err != nil {
		if errClass(err) == "panic" {
			return "open-panic", "Open: " + panicDetail(err)
		}
		res.count("open_rejected", 1)
		return "", ""
	}
	res.count("open_accepted", 1)
	defer func() {
		if !w.Dead && w.DB != nil {
			w.Close()
		}
	}()
	res.count("class_"+class, 1)
	perr := w.guard(func() error {
		// candidates: the mappings the opened database may show (strict: the final one; tail: the one after any prefix)
		cands := []map[string]string{bi.final}
		if class == "tail" {
			cands = bi.prefix
		}
		alive := make([]bool, len(cands))
		for i := range alive {
			alive[i] = true
		}
		var seen []string
		for _, k := range append(append([]string{}, bi.keys...), "zz-never") {
			v, err := w.DB.Get([]byte(k))
			if err != nil && !errors.Is(err, kv.ErrKeyNotFound) {
				seen = append(seen, fmt.Sprintf("%s:%s", k, errClass(err)))
				continue
			}
			if err == nil && !bi.hist[k][string(v)] {
				clause, detail = "get-foreign-bytes", fmt.Sprintf("Get(%q) returned %s, which was never written for this key", k, short(string(v)))
				return nil
			}
			if err == nil {
				seen = append(seen, fmt.Sprintf("%s=%s", k, short(string(v))))
			} else {
				seen = append(seen, k+":not-found")
			}
			for i, c := range cands {
				want, ok := c[k]
				if (err == nil) != ok || (ok && want != string(v)) {
					alive[i] = false
				}
			}
		}
		if class != "shorter" {
			any := false
			for _, a := range alive {
				any = any || a
			}
			if !any {
				what := "the mapping at Close " + modelString(bi.final)
				if class == "tail" {
					what = "the mapping after any prefix of the trace"
				}
				clause, detail = "stale-or-missing", fmt.Sprintf("Open accepted the damaged image and the reads (no error) do not agree with %s: %s", what, strings.Join(seen, " "))
				return nil
			}
		}
		listed := map[string]bool{}
		for _, k := range w.DB.ListKeys() {
			if bi.hist[string(k)] == nil {
				clause, detail = "phantom-key", fmt.Sprintf("ListKeys returned key %q, which was never written", truncate(string(k), 16))
				return nil
			}
			listed[string(k)] = true
		}
		if class == "strict" {
			for _, k := range bi.keys {
				if _, ok := bi.final[k]; ok != listed[k] {
					clause, detail = "stale-or-missing", fmt.Sprintf("Open accepted the damaged image; ListKeys has key %q: %v, the mapping at Close %s", k, listed[k], modelString(bi.final))
					return nil
				}
			}
		}
		w.DB.Fold(func(k, v []byte) bool {
			if bi.hist[string(k)] == nil {
				clause, detail = "phantom-key", fmt.Sprintf("Fold visited key %q, which was never written", truncate(string(k), 16))
				return false
			}
			if !bi.hist[string(k)][string(v)] {
				clause, detail = "fold-foreign-bytes", fmt.Sprintf("Fold returned %s for key %q, which was never written for it", short(string(v)), k)
				return false
			}
			if class == "strict" && bi.final[string(k)] != string(v) {
				clause, detail = "stale-or-missing", fmt.Sprintf("Open accepted the damaged image; Fold returned %s for key %q, the mapping at Close %s", short(string(v)), k, modelString(bi.final))
				return false
			}
			return true
		})
		return nil
	})
	if perr != nil {
		return "read-panic", panicDetail(perr)
	}
	if clause != "" {
		return clause, detail
	}
	// the opened database stays usable: what is written now reads back (positions continue from the repaired end)
	perr = w.guard(func() error {
		for i, k := range []string{bi.keys[0], bi.keys[len(bi.keys)-1], bi.keys[0]} {
			if bi.hist[k] == nil {
				bi.hist[k] = map[string]bool{}
			}
			val := []byte(fmt.Sprintf("after-damage-%d-%s", i, strings.Repeat("x", i*40)))
			if err := w.DB.Put([]byte(k), val); err != nil {
				return nil // refusing to write is an error return, not a violation
			}
			bi.hist[k][string(val)] = true
			defer delete(bi.hist[k], string(val))
			got, err := w.DB.Get([]byte(k))
			if err != nil {
				clause, detail = "write-after-damage", fmt.Sprintf("after the damaged image was opened, Put(%q) succeeded but Get returned %s", k, errClass(err))
				return nil
			}
			if string(got) != string(val) {
				clause, detail = "write-after-damage", fmt.Sprintf("after the damaged image was opened, Put(%q,%s) succeeded but Get returned %s", k, short(string(val)), short(string(got)))
				return nil
			}
		}
		return nil
	})
	if perr != nil {
		return "write-panic", panicDetail(perr)
	}
	return clause, detail
}

func c12Tasks(tier string) []Task {
	var tasks []Task
	for _, im := range c12Images(tier) {
		im := im
		// one task per (image, file, slice of the fault list)
		const slices = 8
		for sl := 0; sl < slices; sl++ {
			sl := sl
			tasks = append(tasks, Task{Level: "image-" + im.Name, Name: fmt.Sprintf("image %s slice %d/%d", im.Name, sl, slices), Fn: func(res *TaskResult) {
				bi, err := buildImage(im)
				if err != nil {
					res.Err = err.Error()
					return
				}
				res.Execs++
				n := 0
				for _, file := range sortedKeys(bi.snap.Files) {
					if !(strings.HasSuffix(file, ".data") || strings.HasSuffix(file, ".hint")) {
						continue
					}
					stop := false
					enumFaults(file, bi.snap.Files[file], im.Dense, bi.starts[file], func(f fault) bool {
						n++
						if n%slices != sl {
							return true
						}
						announce(func() string { return im.Name + " :: " + f.String() })
						res.Transitions++
						fs := applyFault(bi.snap, f)
						res.States = append(res.States, fs.hash())
						// the damaged directory is opened under the configuration that wrote it and (thorough tier) through
						// the memory-mapped read path
						readers := []Cfg{im.Cfg}
						if tier == "thorough" {
							mm := im.Cfg
							mm.IO = 1
							readers = append(readers, mm)
						}
						for _, rc := range readers {
							c, d := judgeFaulted(bi, rc, fs, bi.faultClass(f), res)
							res.Nontrivial++
							if c != "" {
								v := Violation{Prop: "C12", Clause: c, Sig: c + ":" + bi.sigKind(f),
									Detail: fmt.Sprintf("image %q (cfg %s, built by [%s]), opened as %s, fault %s\n%s", im.Name, im.Cfg, im.Trace, rc, f, d),
									Replay: mustJSON(map[string]any{"engine": "corrupt", "property": "C12", "image": im.Name, "fault": f, "reader_io": rc.IO})}
								if isKnown(&v) {
									addViolation(res, &v) // one per signature; the enumeration goes on
									res.count("known_suppressed", 1)
									continue
								}
								res.Violations = append(res.Violations, v)
								stop = len(res.Violations) >= 4
								return !stop
							}
						}
						return true
					})
					if stop {
						return
					}
				}
				if len(res.Samples) == 0 {
					res.Samples = append(res.Samples, fmt.Sprintf("image %q = [%s] closed; files %s; every bit flip / 0x00,0xFF substitution / run of 2,4,7,8,16,64 bytes / truncation length", im.Name, im.Trace, bi.snap.listing()))
				}
			}})
		}
	}
	tasks = append(tasks, Task{Level: "live-damage", Name: "damage under an open handle", Fn: c12LiveTask})
	return tasks
}

func init() {
	register(&Check{
		Prop:   "C12",
		Engine: "corrupt",
		Rule:   "small closed databases covering every record kind (plain, tombstone, batch + sealing record, rotated files, finished merge not yet adopted with hint file, adopted merge, multi-chunk record with padded block tail): for EVERY byte of every data and hint file (multi-chunk image: every byte within 96 of a block boundary or of the file end plus every 997th) every single-bit flip, substitution by 0x00/0xFF, every run of 2,4,7,8,16,64 bytes zeroed / set to 0xFF, every truncation length, and block substitutions; each faulted image goes through the package's sequential reader, Open, Get of every key, ListKeys and Fold under panic recovery. states = distinct faulted images; every fault is a distinct case",
		Assumptions: []string{
			"serving an OLDER value of the same key after its newest record was destroyed is not judged (the statement's clause is 'bytes that differ from what was written / wrong key')",
			"random multi-byte damage in large databases is replaced by this exhaustive structured set (sampling is outside the technique family)",
			"CRC-32 collisions of multi-byte runs are possible in principle (2^-32) and would be reported",
		},
		Tasks: c12Tasks,
		Bounds: func(tier string) map[string]any {
			return map[string]any{"images": len(c12Images(tier)), "fault_kinds": "bit flips, 0x00/0xFF, runs {2,4,7,8,16,64}x{0x00,0xFF}, truncations, block substitutions"}
		},
		Replay: func(raw json.RawMessage) {
			var m struct {
				Image    string `json:"image"`
				Fault    fault  `json:"fault"`
				ReaderIO byte   `json:"reader_io"`
			}
			json.Unmarshal(raw, &m)
			var eng struct {
				Engine string `json:"engine"`
			}
			json.Unmarshal(raw, &eng)
			if eng.Engine == "live-damage" {
				var res TaskResult
				c12LiveTask(&res)
				for _, v := range res.Violations {
					fmt.Printf("VIOLATION clause=%s\n%s\n", v.Clause, v.Detail)
					os.Exit(1)
				}
				fmt.Println("no violation on this tree")
				return
			}
			for _, im := range c12Images("thorough") {
				if im.Name != m.Image {
					continue
				}
				bi, err := buildImage(im)
				if err != nil {
					fmt.Println(err)
					os.Exit(2)
				}
				var res TaskResult
				rc := im.Cfg
				rc.IO = m.ReaderIO
				c, d := judgeFaulted(bi, rc, applyFault(bi.snap, m.Fault), bi.faultClass(m.Fault), &res)
				if c != "" {
					fmt.Printf("VIOLATION clause=%s\n%s\n", c, d)
					os.Exit(1)
				}
				fmt.Println("no violation on this tree")
				return
			}
		},
	})
}

// ---- damage while the database is open (Standard I/O) -------------------------------------------------------------
// The data file is cut or altered UNDER an open handle: the index (in memory) still names every record, the cached
// file size is the old one, read buffers hold what earlier reads left in them. Sixteen records of exactly 4096 bytes
// fill two blocks, so every in-block offset of block 1 also starts a record in block 0 (stale buffer contents are
// well-formed chunks of ANOTHER key). Every Get returns the written value or an error.
func c12LiveTask(res *TaskResult) {
	beginExecution()
	cfg := megCfg(1 << 20)
	var keys []string
	for c := byte('a'); c < 'a'+16; c++ {
		keys = append(keys, string([]byte{c}))
	}
	w := NewWorld(cfg, keys)
	defer w.Destroy()
	res.Execs++
	if err := w.Open(); err != nil {
		res.Err = "c12 live: open: " + panicDetail(err)
		return
	}
	for _, k := range keys {
		if ar := w.Apply(Op{K: "put", Key: k, VC: "F", Arg: 4083}); ar.Err != nil {
			res.Err = "c12 live: put failed"
			return
		}
	}
	path := filepath.Join(w.Dir, "000000000.data")
	pristine, err := os.ReadFile(path)
	if err != nil || len(pristine) != 16*4096 {
		res.Err = fmt.Sprintf("c12 live: the image is not 16 records of 4096 bytes (%d bytes)", len(pristine))
		return
	}
	type lf struct {
		kind string
		pos  int
	}
	var faults []lf
	for p := 0; p < len(pristine); p++ {
		o := p % 4096
		if o <= 20 || o >= 4096-8 || o == 2048 {
			faults = append(faults, lf{"trunc", p})
		}
		if o < 16 {
			faults = append(faults, lf{"flip", p})
		}
	}
	for _, f := range faults {
		for _, warm := range [][]int{{0, 15}, {15, 0}} { // which block the read buffers saw last
			res.Transitions++
			progressTick.Add(1)
			if err := os.WriteFile(path, pristine, 0o644); err != nil {
				res.Err = "c12 live: restore: " + err.Error()
				return
			}
			bad := ""
			perr := w.guard(func() error {
				for _, i := range warm {
					if v, err := w.DB.Get([]byte(keys[i])); err != nil || string(v) != w.Model[keys[i]] {
						bad = fmt.Sprintf("on the pristine file Get(%q) = %s / %s", keys[i], short(string(v)), errClass(err))
						return nil
					}
				}
				switch f.kind {
				case "trunc":
					os.Truncate(path, int64(f.pos))
				case "flip":
					d := append([]byte(nil), pristine...)
					d[f.pos] ^= 0x10
					os.WriteFile(path, d, 0o644)
				}
				for _, k := range keys {
					v, err := w.DB.Get([]byte(k))
					res.Evals++
					if err == nil && string(v) != w.Model[k] {
						bad = fmt.Sprintf("Get(%q) returned %s (no error), written %s", k, short(string(v)), short(w.Model[k]))
						return nil
					}
				}
				w.DB.Fold(func(k, v []byte) bool {
					if string(v) != w.Model[string(k)] {
						bad = fmt.Sprintf("Fold returned %s for key %q, written %s", short(string(v)), k, short(w.Model[string(k)]))
						return false
					}
					return true
				})
				return nil
			})
			if perr != nil {
				bad = "panic: " + panicDetail(perr)
			}
			res.States = append(res.States, hash64(f.kind, fmt.Sprint(f.pos, warm)))
			if bad != "" {
				v := Violation{Prop: "C12", Clause: "live-damage", Sig: "live-damage:" + f.kind,
					Detail: fmt.Sprintf("16 records of 4096 bytes in one open data file (Standard I/O); buffers warmed by Get(%s), Get(%s); then %s at byte %d of the file under the open handle\n%s", keys[warm[0]], keys[warm[1]], f.kind, f.pos, bad),
					Replay: mustJSON(map[string]any{"engine": "live-damage", "property": "C12", "kind": f.kind, "pos": f.pos})}
				addViolation(res, &v)
				if len(res.Violations) >= 3 {
					return
				}
				// the instance may be poisoned by a panic: start over
				if w.Dead {
					return
				}
			}
		}
	}
	res.Nontrivial++
	res.Samples = append(res.Samples, fmt.Sprintf("%d faults (cuts at every record boundary +-20 / -8 bytes and mid-record, bit flips in every record's framing) x 2 buffer histories under an open handle", len(faults)))
}

package main

import (
	"crypto/sha256"
	"encoding/json"
	"fmt"
	"os"
	"strings"

	kv "github.com/XiXi-2024/xixi-kv"
)

// C14 — behaviour is independent of index type, shard count, I/O type and limits (lock-step runs).

// transcriptStep renders everything observable after one step. full=false leaves out what may
// legitimately follow the layout (byte counters, file count).
func (w *World) transcriptStep(op Op, ar ApplyResult, full *strings.Builder, reduced *strings.Builder) {
	emit := func(both bool, format string, a ...any) {
		s := fmt.Sprintf(format, a...)
		full.WriteString(s)
		if both {
			reduced.WriteString(s)
		}
	}
	emit(true, "## %s -> %s\n", op, errClass(ar.Err))
	if ar.Extra != "" {
		emit(true, "batch-get %s\n", ar.Extra)
	}
	if w.Dead || w.DB == nil {
		return
	}
	err := w.guard(func() error {
		for _, k := range append(append([]string{}, w.Keys...), "zz-never") {
			v, err := w.DB.Get([]byte(k))
			emit(true, "get %s = %s %s\n", k, short(string(v)), errClass(err))
		}
		var ks []string
		for _, k := range w.DB.ListKeys() {
			ks = append(ks, string(k))
		}
		emit(true, "list %q\n", ks)
		ks = ks[:0]
		ferr := w.DB.Fold(func(k, v []byte) bool { ks = append(ks, string(k)+"="+short(string(v))); return true })
		emit(true, "fold %q %s\n", ks, errClass(ferr))
		for _, rev := range []bool{false, true} {
			it := w.DB.NewIterator(kv.IteratorOptions{Reverse: rev})
			ks = ks[:0]
			for it.Rewind(); it.Valid(); it.Next() {
				v, err := it.Value()
				ks = append(ks, string(it.Key())+"="+short(string(v))+errClass(err))
			}
			it.Close()
			emit(true, "iter rev=%v %q\n", rev, ks)
		}
		st := w.DB.Stat()
		emit(true, "keynum %d\n", st.KeyNum)
		emit(false, "stat files=%d reclaim=%d disk=%d\n", st.DataFileNum, st.ReclaimableSize, st.DiskSize)
		return nil
	})
	if err != nil {
		emit(true, "PANIC %s\n", panicDetail(err))
	}
}

func dirDigest(dir string) string {
	ents, _ := os.ReadDir(dir)
	h := sha256.New()
	for _, e := range ents {
		if !strings.HasSuffix(e.Name(), ".data") {
			continue
		}
		data, _ := os.ReadFile(dir + "/" + e.Name())
		fmt.Fprintf(h, "%s:%d:", e.Name(), len(data))
		h.Write(data)
	}
	return fmt.Sprintf("%x", h.Sum(nil)[:8])
}

type c14Run struct {
	full, reduced, files string
}

func c14Exec(cfg Cfg, keys []string, ops []Op, res *TaskResult) c14Run {
	beginExecution()
	w := NewWorld(cfg, keys)
	w.Adversarial = true
	defer w.Destroy()
	res.Execs++
	var full, reduced strings.Builder
	if err := w.Open(); err != nil {
		return c14Run{full: "open failed: " + errClass(err), reduced: "open failed: " + errClass(err)}
	}
	for _, op := range ops {
		ar := w.Apply(op)
		res.Transitions++
		w.transcriptStep(op, ar, &full, &reduced)
		if w.Dead || w.DB == nil {
			return c14Run{full: full.String(), reduced: reduced.String()}
		}
	}
	// the recovered mapping after a final restart
	ar := w.Apply(Op{K: "restart"})
	w.transcriptStep(Op{K: "final-restart"}, ar, &full, &reduced)
	files := ""
	if w.DB != nil && !w.Dead {
		if err := w.Close(); err == nil {
			files = dirDigest(w.Dir)
		}
	}
	return c14Run{full: full.String(), reduced: reduced.String(), files: files}
}

func firstDiff(a, b string) string {
	la, lb := strings.Split(a, "\n"), strings.Split(b, "\n")
	step := ""
	for i := 0; i < len(la) && i < len(lb); i++ {
		if strings.HasPrefix(la[i], "## ") {
			step = la[i]
		}
		if la[i] != lb[i] {
			return fmt.Sprintf("at %q:\n   first : %s\n   second: %s", step, la[i], lb[i])
		}
	}
	return fmt.Sprintf("transcripts have different lengths (%d vs %d lines)", len(la), len(lb))
}

func hasBatch(ops []Op) bool {
	for _, o := range ops {
		if o.K == "batch" {
			return true
		}
	}
	return false
}

func makeRunC14(cfgs []Cfg) func(cfg Cfg, keys []string, ops []Op, res *TaskResult) *Violation {
	return func(_ Cfg, keys []string, ops []Op, res *TaskResult) *Violation {
		var first *c14Run
		var firstCfg Cfg
		groups := map[string]*c14Run{}
		groupCfg := map[string]Cfg{}
		tear := hasTear(ops)
		byFS, byFSCfg := map[int64]*c14Run{}, map[int64]Cfg{}
		for _, cfg := range cfgs {
			r := c14Exec(cfg, keys, ops, res)
			res.Evals++
			if tear {
				// reference = the first configuration with the same DataFileSize
				if ref, ok := byFS[cfg.FileSize]; !ok {
					rr := r
					byFS[cfg.FileSize], byFSCfg[cfg.FileSize] = &rr, cfg
				} else if r.reduced != ref.reduced {
					return viol("C14", "results-differ", "results-differ:torn-tail:"+diffDim(byFSCfg[cfg.FileSize], cfg), fmt.Sprintf("results differ between %s and %s %s", byFSCfg[cfg.FileSize], cfg, firstDiff(ref.reduced, r.reduced)))
				}
				if first == nil {
					first, firstCfg = &r, cfg
				}
			} else if first == nil {
				first, firstCfg = &r, cfg
			} else if r.reduced != first.reduced {
				return viol("C14", "results-differ", "results-differ:"+diffDim(firstCfg, cfg), fmt.Sprintf("results differ between %s and %s %s", firstCfg, cfg, firstDiff(first.reduced, r.reduced)))
			}
			g := fmt.Sprintf("fs%d/sync%d/%d", cfg.FileSize, cfg.Sync, cfg.BPS)
			if prev, ok := groups[g]; !ok {
				rr := r
				groups[g], groupCfg[g] = &rr, cfg
			} else {
				if r.full != prev.full {
					return viol("C14", "stat-differs", "stat-differs:"+diffDim(groupCfg[g], cfg), fmt.Sprintf("Stat differs between %s and %s (same DataFileSize and sync strategy) %s", groupCfg[g], cfg, firstDiff(prev.full, r.full)))
				}
				if !hasBatch(ops) && r.files != prev.files {
					return viol("C14", "file-bytes-differ", "file-bytes-differ:"+diffDim(groupCfg[g], cfg), fmt.Sprintf("data-file bytes after Close differ between %s and %s for a batch-free sequence (%s vs %s)", groupCfg[g], cfg, prev.files, r.files))
				}
			}
		}
		res.States = append(res.States, hash64(first.reduced))
		for _, k := range keys {
			if strings.Contains(first.reduced, "get "+k+" = \"\" ErrKeyNotFound") && strings.Contains(first.reduced, "get "+k+" = \"") &&
				strings.Count(first.reduced, "get "+k+" = \"\" ErrKeyNotFound") < strings.Count(first.reduced, "get "+k+" = ") {
				res.Nontrivial++ // a universe key was both present and absent during the sequence
				break
			}
		}
		return nil
	}
}

// torn-tail level: a restart may find the newest file short of its last bytes (the recovery truncates the torn
// record away and later writes follow the cut). What is lost depends on the file layout, so these sequences are
// compared only between configurations with the same DataFileSize (back-end, index type and shard count vary).
func c14TearAlphabet(c Cfg) []Op {
	return []Op{
		{K: "put", Key: "a", VC: "S"},
		{K: "put", Key: "b", VC: "S"},
		{K: "del", Key: "a"},
		{K: "restarttear", Arg: 1},
		{K: "restarttear", Arg: 12, Dev: true},
		{K: "put", Key: "b", VC: "F", Arg: 210, Dev: true},
		{K: "batch", Sub: []Op{{K: "put", Key: "a", VC: "S"}, {K: "put", Key: "b", VC: "S"}}, Dev: true},
		{K: "sync", Dev: true},
		{K: "merge", Dev: true},
	}
}

func hasTear(ops []Op) bool {
	for _, op := range ops {
		if op.K == "restarttear" {
			return true
		}
	}
	return false
}

func diffDim(a, b Cfg) string {
	var d []string
	if a.Index != b.Index {
		d = append(d, "index")
	}
	if a.Shards != b.Shards {
		d = append(d, "shards")
	}
	if a.IO != b.IO {
		d = append(d, "io")
	}
	if a.FileSize != b.FileSize {
		d = append(d, "filesize")
	}
	if a.Sync != b.Sync || a.BPS != b.BPS {
		d = append(d, "sync")
	}
	return strings.Join(d, "+")
}

// c14Cfgs: the single-dimension variants plus a few mixed rows (every pair of settings of index x io
// and index x shards occurs).
func c14Cfgs(tier string) []Cfg {
	out := tinyCfgs()
	mix := func(ix int8, sh int, io byte, fs int64, sy byte) {
		c := defaultCfg
		c.Index, c.Shards, c.IO, c.FileSize, c.Sync = ix, sh, io, fs, sy
		out = append(out, c)
	}
	mix(1, 1, 1, 130, 0)
	mix(2, 3, 1, 130, 0)
	mix(1, 2, 0, 64, 1)
	mix(2, 1, 0, 200, 2)
	if tier == "thorough" {
		mix(1, 3, 1, 64, 2)
		mix(2, 16, 1, 200, 1)
		mix(3, 2048, 0, 130, 0)
		mix(1, 2048, 1, 130, 0)
	}
	return out
}

func c14Alphabet(c Cfg) []Op {
	// the value classes are functions of DataFileSize; to keep *inputs* identical across
	// configurations the lock-step alphabet uses fixed lengths (arg = bytes) via class F
	a := []Op{
		{K: "put", Key: "a", VC: "S"},
		{K: "put", Key: "b", VC: "S"},
		{K: "del", Key: "a"},
		{K: "del", Key: "b"},
		{K: "put", Key: "a", VC: "F", Arg: 39, Dev: true},
		{K: "put", Key: "b", VC: "F", Arg: 39, Dev: true},
		{K: "put", Key: "a", VC: "E", Dev: true},
		{K: "put", Key: "b", VC: "F", Arg: 210, Dev: true},
		{K: "sync", Dev: true},
		{K: "merge", Dev: true},
		{K: "restart", Dev: true},
	}
	p := func(k string, n int) Op {
		if n == 0 {
			return Op{K: "put", Key: k, VC: "S"}
		}
		return Op{K: "put", Key: k, VC: "F", Arg: n}
	}
	d := func(k string) Op { return Op{K: "del", Key: k} }
	for _, body := range [][]Op{
		{p("a", 0), p("b", 0)},
		{p("a", 0), d("a"), p("a", 0)},
		{p("a", 39), p("b", 39), d("a")},
		{d("b"), p("a", 0), p("a", 0)},
		{d("a"), p("a", 0)}, // a tombstone staged for an existing key, turned back into a put
	} {
		a = append(a, Op{K: "batch", Sub: body, Dev: true})
	}
	return a
}

// ---- iterator lock-step: the same iterator call sequences under every (index type, shard count) ----------

func c14IterCfgs() []Cfg {
	var out []Cfg
	for _, ix := range []int8{1, 2, 3} {
		for _, sh := range []int{1, 2, 3, 16} {
			c := defaultCfg
			c.Index, c.Shards, c.FileSize = ix, sh, 1<<20
			out = append(out, c)
		}
	}
	return out
}

// c14IterTranscript drives one call sequence on w and renders (Valid, Key, Value) after every call.
func c14IterTranscript(w *World, keys []string, rev bool, prefix string, calls []itCall, vals map[string]string) (string, bool) {
	var b strings.Builder
	pruned := false
	var undo []func()
	defer func() {
		w.guard(func() error {
			for i := len(undo) - 1; i >= 0; i-- {
				undo[i]()
			}
			return nil
		})
	}()
	err := w.guard(func() error {
		it := w.DB.NewIterator(kv.IteratorOptions{Prefix: []byte(prefix), Reverse: rev})
		defer it.Close()
		m := newIterModel(keys, prefix, rev, vals) // used ONLY to prune sequences with a backward Seek
		for _, c := range calls {
			switch c.K {
			case "rewind":
				it.Rewind()
				m.idx, m.rewond = 0, true
			case "fresh":
			case "next":
				it.Next()
				if m.valid() {
					m.idx++
				}
				m.rewond = false
			case "seek":
				// C10 leaves a Seek to a target already passed unspecified; C14 still demands that whatever it does
				// does not depend on the index implementation or the shard count: not pruned here
				it.Seek([]byte(c.T))
			case "write":
				// an interleaved write while the iterator is open (undone after the sequence): the iterator's snapshot
				// must not move under ANY index implementation
				switch c.T {
				case "put-new":
					nk := c10NewKey
					w.DB.Put([]byte(nk), []byte("new"))
					undo = append(undo, func() { w.DB.Delete([]byte(nk)) })
				case "overwrite", "delete":
					if len(keys) > 0 {
						k := keys[len(keys)/2]
						if c.T == "overwrite" {
							w.DB.Put([]byte(k), []byte("overwritten"))
						} else {
							w.DB.Delete([]byte(k))
						}
						undo = append(undo, func() { w.DB.Put([]byte(k), []byte(vals[k])) })
					}
				}
			}
			if it.Valid() {
				v, err := it.Value()
				fmt.Fprintf(&b, "%s->%s=%s%s;", c, it.Key(), v, errClass(err))
			} else {
				fmt.Fprintf(&b, "%s->invalid;", c)
			}
		}
		return nil
	})
	if err != nil {
		return "PANIC " + panicDetail(err), false
	}
	return b.String(), pruned
}

// shard counts outside the sensible range and index types that do not exist: Open refuses them (with an error, not a
// panic), or the database behaves like any other - it never accepts the configuration and then panics on the first access
func runOddShard(cfg Cfg, ops []Op, res *TaskResult) string {
	beginExecution()
	w := NewWorld(cfg, keysAB)
	defer w.Destroy()
	res.Execs++
	if err := w.Open(); err != nil {
		if errClass(err) == "panic" {
			return "Open panicked: " + panicDetail(err)
		}
		res.count("open_refused", 1)
		res.States = append(res.States, hash64("refused", fmt.Sprint(cfg.Shards)))
		return ""
	}
	for i, op := range ops {
		ar := w.Apply(op)
		res.Transitions++
		if ar.Err != nil || ar.Clause != "" || w.Dead {
			return fmt.Sprintf("Open accepted ShardNum %d, then step %d %s: %s %s %s", cfg.Shards, i, op, errClass(ar.Err), panicDetail(ar.Err), ar.Detail)
		}
		if c, d := w.CheckReads(); c != "" {
			return fmt.Sprintf("Open accepted ShardNum %d, after step %d %s: %s", cfg.Shards, i, op, d)
		}
	}
	res.Nontrivial++
	res.States = append(res.States, w.StateHash())
	return ""
}

func c14OddShardTasks() []Task {
	var tasks []Task
	for _, sh := range []int{0, -1, -16, 5, 1000, 4096, 1 << 20, 16} {
		ixs := []int8{1, 2, 3}
		if sh == 16 {
			ixs = []int8{0, 4, -1, 127} // index types that do not exist (ShardNum sensible)
		}
		for _, ix := range ixs {
			sh, ix := sh, ix
			tasks = append(tasks, Task{Level: "odd-shard-counts", Name: fmt.Sprintf("odd shard count %d index %d", sh, ix), Fn: func(res *TaskResult) {
				cfg := defaultCfg
				cfg.Shards, cfg.Index = sh, ix
				ops := []Op{{K: "put", Key: "a", VC: "S"}, {K: "put", Key: "b", VC: "L"}, {K: "del", Key: "a"}, {K: "batch", Sub: []Op{{K: "put", Key: "a", VC: "S"}}}, {K: "merge"}, {K: "restart"}, {K: "put", Key: "b", VC: "S"}}
				if d := runOddShard(cfg, ops, res); d != "" {
					res.Violations = append(res.Violations, Violation{Prop: "C14", Clause: "odd-shard-count", Sig: fmt.Sprintf("odd-shard-count:%d", sh), Detail: fmt.Sprintf("cfg=%s trace=[%s]\n%s", cfg, traceString(ops), d),
						Replay: mustJSON(seqReplay{Engine: "odd-shard", Prop: "C14", Cfg: cfg, Keys: keysAB, Ops: ops, Trace: traceString(ops)})})
				}
			}})
		}
	}
	return tasks
}

func c14IterTasks(tier string) []Task {
	l, bnd := 3, 2
	if tier == "thorough" {
		l, bnd = 4, 2
	}
	cfgs := c14IterCfgs()
	var tasks []Task
	for mask := 0; mask < 64; mask++ {
		keys := subsetKeys(mask)
		if len(keys) < 3 {
			continue
		}
		mask := mask
		tasks = append(tasks, Task{Level: fmt.Sprintf("iterator-lockstep-l%d-b%d", l, bnd), Name: fmt.Sprintf("iterator lock-step keys %q", keys), Fn: func(res *TaskResult) {
			keys := subsetKeys(mask)
			worlds := make([]*World, len(cfgs))
			var vals map[string]string
			for i, cfg := range cfgs {
				w, v, werr := c10World(c10Replay{Mask: mask, Index: cfg.Index, Shards: cfg.Shards})
				if werr != "" {
					res.Err = werr
					return
				}
				worlds[i], vals = w, v
			}
			defer func() {
				for _, w := range worlds {
					w.Destroy()
				}
			}()
			for _, rev := range []bool{false, true} {
				for _, pfx := range []string{"", "a"} {
					stop := false
					enumCalls(l, bnd, func(calls []itCall) bool {
						progressTick.Add(1)
						first := ""
						for i, w := range worlds {
							tr, pruned := c14IterTranscript(w, keys, rev, pfx, calls, vals)
							res.Execs++
							if pruned {
								return true
							}
							if i == 0 {
								first = tr
								continue
							}
							res.Evals++
							if tr != first {
								r := c10Replay{Level: "lockstep", Mask: mask, Rev: rev, Prefix: pfx, Calls: append([]itCall{}, calls...), Index: cfgs[i].Index, Shards: cfgs[i].Shards}
								res.Violations = append(res.Violations, Violation{Prop: "C14", Clause: "iteration-differs", Sig: "iteration-differs:" + diffDim(cfgs[0], cfgs[i]),
									Detail: fmt.Sprintf("%s\nunder %s: %s\nunder %s: %s", r.String(), cfgs[0], first, cfgs[i], tr), Replay: mustJSON(r)})
								stop = true
								return false
							}
						}
						res.Transitions += int64(len(calls))
						res.States = append(res.States, hash64(first))
						res.Nontrivial++
						return true
					})
					if stop {
						return
					}
				}
			}
			res.Samples = append(res.Samples, fmt.Sprintf("iterator lock-step: keys %q x directions x prefixes {\"\",a} x all call sequences (l=%d b=%d) under %d (index type, shard count) configurations", keys, l, bnd, len(cfgs)))
		}})
	}
	return tasks
}

func init() {
	register(&Check{
		Prop:   "C14",
		Engine: "seq",
		Rule:   "every operation sequence within the bound is executed in lock-step under every configuration of the set (adversarial caller: reused, poisoned key/value buffers); all transcripts (every return value / error class, Get of every key, ListKeys, Fold, iterators both ways, KeyNum, and the same after a final restart) must be identical; within equal (DataFileSize, sync strategy) also the full Stat and, for batch-free sequences, the data-file bytes after Close. plus an iterator lock-step level: every key set of >= 3 of 6 keys x direction x prefix x every iterator call sequence (Rewind/Seek/Next/one interleaved write) must give identical (Valid, Key, Value) transcripts under all 12 (index type, shard count) configurations. non-trivial = a universe key was both present and absent during the sequence / every iterator call sequence. Torn-tail level: sequences with restarts that find the newest data file short of its last 1 or 12 bytes (recovery truncates the file, later writes follow the cut), compared between the configurations that share a DataFileSize (what is lost depends on the file layout)",
		Assumptions: []string{
			"inputs are identical across configurations (fixed value lengths 3/39/210/0 bytes)",
			"batch ids are time-based, so file bytes are compared for batch-free sequences only",
			"Merge scans rotated files in ascending id order in every configuration (owned by the harness)",
		},
		Tasks: func(tier string) []Task {
			d, b := 4, 2
			if tier == "thorough" {
				d, b = 5, 2
			}
			cfgs := c14Cfgs(tier)
			tasks := seqTasks("C14", []seqLevel{{Name: fmt.Sprintf("lockstep-d%db%d-x%dcfgs", d, b, len(cfgs)), Cfgs: []Cfg{defaultCfg}, Keys: keysAB, Alpha: c14Alphabet, Depth: d, Dev: b, Split: 2, Run: makeRunC14(cfgs)}})
			var lk []Cfg
			for _, c := range longKeyCfgs() {
				lk = append(lk, c)
			}
			mmlk := lk[0]
			mmlk.IO = 1
			lk = append(lk, mmlk)
			tasks = append(tasks, seqTasks("C14", []seqLevel{{Name: "long-keys-lockstep-d4", Cfgs: []Cfg{lk[0]}, Keys: c18LongKeys, Alpha: longKeyMergeAlphabet, Depth: 4, Dev: 2, Split: 2, Run: makeRunC14(lk)}})...)
			td := 4
			if tier == "thorough" {
				td = 5
			}
			tasks = append(tasks, seqTasks("C14", []seqLevel{{Name: fmt.Sprintf("torn-tail-lockstep-d%d", td), Cfgs: []Cfg{defaultCfg}, Keys: keysAB, Alpha: c14TearAlphabet, Depth: td, Dev: 2, Split: 2, Run: makeRunC14(cfgs)}})...)
			return append(append(tasks, c14IterTasks(tier)...), c14OddShardTasks()...)
		},
		Bounds: func(tier string) map[string]any {
			d, b := 4, 2
			if tier == "thorough" {
				d, b = 5, 2
			}
			return map[string]any{"depth": d, "deviation_bound": b, "configs_in_lockstep": len(c14Cfgs(tier)), "sequences": countSeq(c14Alphabet(defaultCfg), d, b)}
		},
		Replay: func(raw json.RawMessage) {
			var r seqReplay
			json.Unmarshal(raw, &r)
			if r.Engine == "odd-shard" {
				var res TaskResult
				if d := runOddShard(r.Cfg, r.Ops, &res); d != "" {
					fmt.Printf("VIOLATION clause=odd-shard-count\n%s\n", d)
					os.Exit(1)
				}
				fmt.Println("no violation on this tree")
				return
			}
			seqReplayMain(raw, makeRunC14(c14Cfgs("thorough")))
		},
	})
}

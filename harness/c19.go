package main

import (
	"bytes"
	"encoding/json"
	"errors"
	"fmt"
	"math"
	"os"
	"path/filepath"
	"sort"
	"strconv"
	"strings"
	"time"

	kv "github.com/XiXi-2024/xixi-kv"
	"github.com/XiXi-2024/xixi-kv/datatype"
	"github.com/XiXi-2024/xixi-kv/verifrt/vtime"
)

// C19 — Redis-style structures behave like their abstract types and survive restart.

type dtOp struct {
	C   string  `json:"c"` // set get hset hdel sadd srem lpush rpush lpop rpop zadd del advance restart
	Key string  `json:"key,omitempty"`
	F   string  `json:"f,omitempty"` // field / member
	TTL int     `json:"ttl,omitempty"`
	Sc  float64 `json:"score,omitempty"`
	Dev bool    `json:"-"`
}

func (o dtOp) String() string {
	s := o.C
	var a []string
	if o.Key != "" {
		a = append(a, o.Key)
	}
	if o.F != "" {
		a = append(a, o.F)
	}
	if o.TTL < 0 {
		a = append(a, "ttl=max")
	} else if o.TTL != 0 {
		a = append(a, fmt.Sprintf("ttl=%ds", o.TTL))
	}
	if o.C == "zadd" {
		a = append(a, fmt.Sprint(o.Sc))
	}
	if len(a) > 0 {
		s += "(" + strings.Join(a, ",") + ")"
	}
	return s
}

// a member that spells the score-ordered internal key of (score 1, member "m1"): score text, member, member length
const c19Collide = "1m1\x02\x00\x00\x00"

func c19Alphabet() []dtOp {
	k := "k1"
	a := []dtOp{
		{C: "set", Key: k}, {C: "set", Key: k, TTL: 1},
		{C: "hset", Key: k, F: "f1"}, {C: "hset", Key: k, F: "f2"}, {C: "hdel", Key: k, F: "f1"},
		{C: "sadd", Key: k, F: "m1"}, {C: "sadd", Key: k, F: "m2"}, {C: "srem", Key: k, F: "m1"},
		{C: "lpush", Key: k}, {C: "rpush", Key: k}, {C: "lpop", Key: k}, {C: "rpop", Key: k},
		{C: "zadd", Key: k, F: "m1", Sc: 1}, {C: "zadd", Key: k, F: "m1", Sc: 2.5}, {C: "zadd", Key: k, F: "m2", Sc: 1},
		{C: "del", Key: k},
	}
	a = append(a,
		dtOp{C: "set", Key: "k2", Dev: true}, dtOp{C: "hset", Key: "k2", F: "f1", Dev: true}, dtOp{C: "rpush", Key: "k2", Dev: true}, dtOp{C: "del", Key: "k2", Dev: true},
		dtOp{C: "advance", Dev: true}, dtOp{C: "restart", Dev: true},
		// restart after a crash that tore the previous command off the log (its last byte never reached the disk):
		// every mutating command is one record or one batch, so the command is lost as a whole
		dtOp{C: "crashtear", Dev: true},
		// edge values: a score that needs more than 24 mantissa bits, a string whose bytes do not decode as container
		// metadata (every 0xFF), a sorted-set member that looks like another member's score-ordered key
		dtOp{C: "zadd", Key: k, F: "m2", Sc: 16777217.5, Dev: true},
		dtOp{C: "set", Key: k, F: "ff", Dev: true},
		dtOp{C: "set", Key: k, TTL: -1, Dev: true}, // a TTL of math.MaxInt64 ns: now + ttl overflows, the key never expires
		dtOp{C: "zadd", Key: k, F: c19Collide, Sc: 7, Dev: true})
	return a
}

// ---- reference model -------------------------------------------------------------------------

type dtVal struct {
	typ     byte // datatype.String ... ZSet
	str     string
	ttl     bool // string with expiry
	expired bool // an Advance happened after the Set with ttl
	hash    map[string]string
	set     map[string]bool
	list    []string
	zset    map[string]float64
}

func (v *dtVal) size() int {
	switch v.typ {
	case datatype.Hash:
		return len(v.hash)
	case datatype.Set:
		return len(v.set)
	case datatype.List:
		return len(v.list)
	case datatype.ZSet:
		return len(v.zset)
	}
	return 1
}

type dtModel map[string]*dtVal

// container returns the live value of key for a command of type typ:
// (val, wrongType, unjudged). A missing key yields a fresh empty container (not stored yet).
func (m dtModel) container(key string, typ byte) (v *dtVal, wrong bool, unjudged bool) {
	cur, ok := m[key]
	if !ok {
		return &dtVal{typ: typ, hash: map[string]string{}, set: map[string]bool{}, zset: map[string]float64{}}, false, false
	}
	if cur.typ != typ {
		if cur.typ == datatype.String && cur.expired {
			// "expired means absent": the command sees no key and creates its own container
			return &dtVal{typ: typ, hash: map[string]string{}, set: map[string]bool{}, zset: map[string]float64{}}, false, false
		}
		if cur.typ != datatype.String && cur.size() == 0 {
			return nil, false, true // emptied container of another type: Redis would have removed it, the code keeps it
		}
		return nil, true, false
	}
	return cur, false, false
}

// ---- one execution ---------------------------------------------------------------------------

type dtRun struct {
	svc  *datatype.DataTypeService
	opts kv.Options
	m    dtModel
	step int
	// for crashtear: the model before the previous command and whether that command made the log grow
	prevModel dtModel
	prevGrew  bool
}

func (m dtModel) clone() dtModel {
	c := dtModel{}
	for k, v := range m {
		n := *v
		n.hash, n.set, n.zset = map[string]string{}, map[string]bool{}, map[string]float64{}
		for a, b := range v.hash {
			n.hash[a] = b
		}
		for a, b := range v.set {
			n.set[a] = b
		}
		for a, b := range v.zset {
			n.zset[a] = b
		}
		n.list = append([]string{}, v.list...)
		c[k] = &n
	}
	return c
}

// logBytes is the total size of the data files and the name of the newest one.
func (r *dtRun) logBytes() (total int64, newest string) {
	ents, _ := os.ReadDir(r.opts.DirPath)
	for _, e := range ents {
		if strings.HasSuffix(e.Name(), ".data") {
			if st, err := e.Info(); err == nil {
				total += st.Size()
			}
			if e.Name() > newest {
				newest = e.Name()
			}
		}
	}
	return
}

func (r *dtRun) val() []byte { return []byte(fmt.Sprintf("v%d", r.step)) }

func isWrongType(err error) bool { return errors.Is(err, datatype.ErrWrongTypeOperation) }

// apply executes one command on the service and the model; returns (violation detail, unjudged).
func (r *dtRun) apply(o dtOp) (string, bool) {
	if o.C == "crashtear" || o.C == "restart" || o.C == "advance" {
		d, u := r.apply1(o)
		r.prevModel, r.prevGrew = nil, false
		return d, u
	}
	before := r.m.clone()
	b0, _ := r.logBytes()
	d, u := r.apply1(o)
	b1, _ := r.logBytes()
	r.prevModel, r.prevGrew = before, b1 > b0
	return d, u
}

func (r *dtRun) apply1(o dtOp) (string, bool) {
	r.step++
	key := []byte(o.Key)
	m := r.m
	mismatch := func(format string, a ...any) (string, bool) {
		return fmt.Sprintf("%s: ", o) + fmt.Sprintf(format, a...), false
	}
	switch o.C {
	case "advance":
		vtime.Advance(2 * time.Second)
		for _, v := range m {
			if v.typ == datatype.String && v.ttl {
				v.expired = true
			}
		}
	case "crashtear":
		if err := r.svc.Close(); err != nil {
			return mismatch("Close: %v", err)
		}
		if r.prevGrew && r.prevModel != nil {
			if _, newest := r.logBytes(); newest != "" {
				p := filepath.Join(r.opts.DirPath, newest)
				if st, err := os.Stat(p); err == nil && st.Size() > 0 {
					os.Truncate(p, st.Size()-1)
					r.m = r.prevModel
					m = r.m
				}
			}
		}
		vtime.Advance(2 * time.Millisecond) // a restart takes at least 2 ms of wall-clock time (stated assumption)
		svc, err := datatype.NewDataTypeService(r.opts)
		if err != nil {
			r.svc = nil
			return mismatch("NewDataTypeService after a crash that tore the last command: %v", err)
		}
		r.svc = svc
	case "restart":
		before := r.battery()
		if err := r.svc.Close(); err != nil {
			return mismatch("Close: %v", err)
		}
		svc, err := datatype.NewDataTypeService(r.opts)
		if err != nil {
			r.svc = nil
			return mismatch("NewDataTypeService after a clean Close: %v", err)
		}
		r.svc = svc
		after := r.battery()
		if before != after {
			return mismatch("the probe battery differs across restart\n before: %s\n after:  %s", before, after)
		}
	case "set":
		v := r.val()
		if o.F == "ff" {
			v = bytes.Repeat([]byte{0xff}, 12)
		}
		var ttl time.Duration
		if o.TTL < 0 {
			ttl = time.Duration(math.MaxInt64)
		} else if o.TTL != 0 {
			ttl = time.Duration(o.TTL) * time.Second
		}
		if err := r.svc.Set(key, v, ttl); err != nil {
			return mismatch("Set returned %v", err)
		}
		m[o.Key] = &dtVal{typ: datatype.String, str: string(v), ttl: o.TTL > 0}
	case "del":
		if err := r.svc.Del(key); err != nil {
			return mismatch("Del returned %v", err)
		}
		delete(m, o.Key)
	case "hset":
		c, wrong, unj := m.container(o.Key, datatype.Hash)
		if unj {
			return "", true
		}
		v := r.val()
		created, err := r.svc.HSet(key, []byte(o.F), v)
		if wrong != isWrongType(err) {
			return mismatch("HSet error %v, model wrong-type=%v", err, wrong)
		}
		if wrong {
			break
		}
		if err != nil {
			return mismatch("HSet returned %v", err)
		}
		_, had := c.hash[o.F]
		if created != !had {
			return mismatch("HSet created flag %v, model %v", created, !had)
		}
		c.hash[o.F] = string(v)
		m[o.Key] = c
	case "hdel":
		c, wrong, unj := m.container(o.Key, datatype.Hash)
		if unj {
			return "", true
		}
		removed, err := r.svc.HDel(key, []byte(o.F))
		if wrong != isWrongType(err) {
			return mismatch("HDel error %v, model wrong-type=%v", err, wrong)
		}
		if wrong {
			break
		}
		if err != nil {
			return mismatch("HDel returned %v", err)
		}
		_, had := c.hash[o.F]
		if removed != had {
			return mismatch("HDel removed flag %v, model %v", removed, had)
		}
		if had {
			delete(c.hash, o.F)
		}
	case "sadd":
		c, wrong, unj := m.container(o.Key, datatype.Set)
		if unj {
			return "", true
		}
		added, err := r.svc.SAdd(key, []byte(o.F))
		if wrong != isWrongType(err) {
			return mismatch("SAdd error %v, model wrong-type=%v", err, wrong)
		}
		if wrong {
			break
		}
		if err != nil {
			return mismatch("SAdd returned %v", err)
		}
		if added != !c.set[o.F] {
			return mismatch("SAdd added flag %v, model %v", added, !c.set[o.F])
		}
		c.set[o.F] = true
		m[o.Key] = c
	case "srem":
		c, wrong, unj := m.container(o.Key, datatype.Set)
		if unj {
			return "", true
		}
		removed, err := r.svc.SRem(key, []byte(o.F))
		if wrong != isWrongType(err) {
			return mismatch("SRem error %v, model wrong-type=%v", err, wrong)
		}
		if wrong {
			break
		}
		if err != nil {
			return mismatch("SRem returned %v", err)
		}
		if removed != c.set[o.F] {
			return mismatch("SRem removed flag %v, model %v", removed, c.set[o.F])
		}
		delete(c.set, o.F)
	case "lpush", "rpush":
		c, wrong, unj := m.container(o.Key, datatype.List)
		if unj {
			return "", true
		}
		v := r.val()
		var n uint32
		var err error
		if o.C == "lpush" {
			n, err = r.svc.LPush(key, v)
		} else {
			n, err = r.svc.RPush(key, v)
		}
		if wrong != isWrongType(err) {
			return mismatch("push error %v, model wrong-type=%v", err, wrong)
		}
		if wrong {
			break
		}
		if err != nil {
			return mismatch("push returned %v", err)
		}
		if o.C == "lpush" {
			c.list = append([]string{string(v)}, c.list...)
		} else {
			c.list = append(c.list, string(v))
		}
		if int(n) != len(c.list) {
			return mismatch("push returned length %d, model %d", n, len(c.list))
		}
		m[o.Key] = c
	case "lpop", "rpop":
		c, wrong, unj := m.container(o.Key, datatype.List)
		if unj {
			return "", true
		}
		var e []byte
		var err error
		if o.C == "lpop" {
			e, err = r.svc.LPop(key)
		} else {
			e, err = r.svc.RPop(key)
		}
		if wrong != isWrongType(err) {
			return mismatch("pop error %v, model wrong-type=%v", err, wrong)
		}
		if wrong {
			break
		}
		if len(c.list) == 0 {
			if err != nil || e != nil {
				return mismatch("pop on an empty list returned (%q, %v), model (nil, nil)", e, err)
			}
			break
		}
		if err != nil {
			return mismatch("pop returned %v", err)
		}
		var want string
		if o.C == "lpop" {
			want, c.list = c.list[0], c.list[1:]
		} else {
			want, c.list = c.list[len(c.list)-1], c.list[:len(c.list)-1]
		}
		if string(e) != want {
			return mismatch("popped %q, model %q (model list after pop %q)", e, want, c.list)
		}
	case "zadd":
		c, wrong, unj := m.container(o.Key, datatype.ZSet)
		if unj {
			return "", true
		}
		added, err := r.svc.ZAdd(key, o.Sc, []byte(o.F))
		if wrong != isWrongType(err) {
			return mismatch("ZAdd error %v, model wrong-type=%v", err, wrong)
		}
		if wrong {
			break
		}
		if err != nil {
			return mismatch("ZAdd returned %v", err)
		}
		_, had := c.zset[o.F]
		if added != !had {
			return mismatch("ZAdd added flag %v, model %v", added, !had)
		}
		c.zset[o.F] = o.Sc
		m[o.Key] = c
	}
	return "", false
}

// battery runs every read command on every key / field / member and renders the replies
// (classification for the replies the statement does not pin: absent vs present).
func (r *dtRun) battery() string {
	var b strings.Builder
	for _, k := range []string{"k1", "k2"} {
		key := []byte(k)
		v, err := r.svc.Get(key)
		fmt.Fprintf(&b, "get %s=%s;", k, classify(v, err))
		t, err := r.svc.Type(key)
		if err != nil {
			fmt.Fprintf(&b, "type %s=absent;", k)
		} else {
			fmt.Fprintf(&b, "type %s=%d;", k, t)
		}
		for _, f := range []string{"f1", "f2"} {
			v, err := r.svc.HGet(key, []byte(f))
			fmt.Fprintf(&b, "hget %s.%s=%s;", k, f, classify(v, err))
		}
		for _, mm := range []string{"m1", "m2", c19Collide} {
			ok, err := r.svc.SIsMember(key, []byte(mm))
			if isWrongType(err) {
				fmt.Fprintf(&b, "sismember %s.%s=WRONGTYPE;", k, mm)
			} else {
				fmt.Fprintf(&b, "sismember %s.%s=%v;", k, mm, ok && err == nil)
			}
			sc, err := r.svc.ZScore(key, []byte(mm))
			switch {
			case isWrongType(err):
				fmt.Fprintf(&b, "zscore %s.%s=WRONGTYPE;", k, mm)
			case err != nil || sc == -1:
				fmt.Fprintf(&b, "zscore %s.%s=absent;", k, mm)
			default:
				fmt.Fprintf(&b, "zscore %s.%s=%v;", k, mm, sc)
			}
		}
	}
	return b.String()
}

func classify(v []byte, err error) string {
	switch {
	case isWrongType(err):
		return "WRONGTYPE"
	case err != nil || v == nil:
		return "absent"
	}
	return fmt.Sprintf("%q", v)
}

// modelBattery renders what the battery must show according to the model ("?" = not judged).
func (r *dtRun) modelBattery() string {
	var b strings.Builder
	for _, k := range []string{"k1", "k2"} {
		cur := r.m[k]
		wt := func(typ byte) (string, *dtVal) { // reply prefix for a read of type typ
			if cur == nil {
				return "absent", nil
			}
			if cur.typ != typ {
				if cur.typ == datatype.String && cur.expired {
					return "absent", nil // expired means absent, for every command
				}
				if cur.typ != datatype.String && cur.size() == 0 {
					return "?", nil
				}
				return "WRONGTYPE", nil
			}
			return "", cur
		}
		// get
		if p, v := wt(datatype.String); v == nil {
			fmt.Fprintf(&b, "get %s=%s;", k, p)
		} else if v.expired {
			fmt.Fprintf(&b, "get %s=absent;", k)
		} else {
			fmt.Fprintf(&b, "get %s=%q;", k, v.str)
		}
		// type
		switch {
		case cur == nil:
			fmt.Fprintf(&b, "type %s=absent;", k)
		case cur.typ == datatype.String && cur.expired:
			fmt.Fprintf(&b, "type %s=absent;", k)
		default:
			fmt.Fprintf(&b, "type %s=%d;", k, cur.typ)
		}
		for _, f := range []string{"f1", "f2"} {
			if p, v := wt(datatype.Hash); v == nil {
				fmt.Fprintf(&b, "hget %s.%s=%s;", k, f, p)
			} else if val, ok := v.hash[f]; ok {
				fmt.Fprintf(&b, "hget %s.%s=%q;", k, f, val)
			} else {
				fmt.Fprintf(&b, "hget %s.%s=absent;", k, f)
			}
		}
		for _, mm := range []string{"m1", "m2", c19Collide} {
			if p, v := wt(datatype.Set); v == nil {
				if p == "absent" {
					p = "false"
				}
				fmt.Fprintf(&b, "sismember %s.%s=%s;", k, mm, p)
			} else {
				fmt.Fprintf(&b, "sismember %s.%s=%v;", k, mm, v.set[mm])
			}
			if p, v := wt(datatype.ZSet); v == nil {
				fmt.Fprintf(&b, "zscore %s.%s=%s;", k, mm, p)
			} else if sc, ok := v.zset[mm]; ok {
				fmt.Fprintf(&b, "zscore %s.%s=%v;", k, mm, sc)
			} else {
				fmt.Fprintf(&b, "zscore %s.%s=absent;", k, mm)
			}
		}
	}
	return b.String()
}

func batteryDiff(got, want string) string {
	g, w := strings.Split(got, ";"), strings.Split(want, ";")
	for i := range g {
		if i >= len(w) {
			break
		}
		if g[i] != w[i] && !strings.HasSuffix(w[i], "=?") {
			return fmt.Sprintf("reply %q, model %q", g[i], w[i])
		}
	}
	return ""
}

var c19Seq int

func runC19(cfg Cfg, ops []dtOp, res *TaskResult) (v *Violation) {
	beginExecution()
	vtime.Owned = true
	vtime.Reset()
	c19Seq++
	root := filepath.Join(scratchRoot(), fmt.Sprintf("dt%d", c19Seq))
	os.MkdirAll(root, 0o755)
	defer os.RemoveAll(root)
	res.Execs++
	r := &dtRun{opts: cfg.options(filepath.Join(root, "db")), m: dtModel{}}
	collideUsed := false
	fail := func(clause, detail string) *Violation {
		strs := make([]string, len(ops))
		for i, o := range ops {
			strs[i] = o.String()
		}
		sig := clause
		// the sorted-set key encoding is ambiguous for a member that spells another member's score-ordered key (known
		// finding KF-3): a failure on that member's probe, or in a sequence that already used such a member, is its own signature
		first := detail
		if i := strings.Index(first, "\n"); i >= 0 {
			first = first[:i]
		}
		if strings.Contains(first, c19Collide) || strings.Contains(first, strings.Trim(strconv.Quote(c19Collide), "\"")) || collideUsed {
			sig += ":member-spells-score-key"
		}
		return &Violation{Prop: "C19", Clause: clause, Sig: sig, Detail: fmt.Sprintf("cfg=%s commands=[%s]\n%s", cfg, strings.Join(strs, "; "), detail)}
	}
	defer func() {
		if rec := recover(); rec != nil {
			v = fail("panic", fmt.Sprintf("panic: %v @ %s", rec, trimStack(stack())))
		}
		if r.svc != nil {
			func() { defer func() { recover() }(); r.svc.Close() }()
		}
	}()
	svc, err := datatype.NewDataTypeService(r.opts)
	if err != nil {
		return fail("open-fresh", err.Error())
	}
	r.svc = svc
	types := map[byte]bool{}
	for i, o := range ops {
		collideUsed = collideUsed || o.F == c19Collide
		d, unjudged := r.apply(o)
		res.Transitions++
		if unjudged {
			res.count("pruned_unjudged", 1)
			return nil
		}
		if d != "" {
			clause := "reply:" + o.C
			if o.C == "restart" {
				clause = "restart"
			}
			return fail(clause, fmt.Sprintf("step %d %s", i, d))
		}
		if r.svc == nil {
			return nil
		}
		res.Evals++
		if d := batteryDiff(r.battery(), r.modelBattery()); d != "" {
			return fail("state-after:"+o.C, fmt.Sprintf("after step %d %s: %s\n got:   %s\n model: %s", i, o, d, r.battery(), r.modelBattery()))
		}
		for _, mv := range r.m {
			types[mv.typ] = true
		}
	}
	res.States = append(res.States, hash64(r.modelBattery()))
	if len(types) >= 2 {
		res.Nontrivial++
	}
	return nil
}

// crash level: a batch whose sealing record was torn leaves its records in the log for ever; they must stay dead
// whatever later sessions commit (batch identifiers never repeat across restarts). Needs a container that already
// exists, a torn update of it, later commands of another session and one more restart: deeper than the main level,
// so it has its own small alphabet; every sequence ends with an implicit restart.
func c19CrashAlphabet() []dtOp {
	return []dtOp{
		{C: "hset", Key: "k1", F: "f1"}, {C: "hset", Key: "k1", F: "f2"}, {C: "sadd", Key: "k2", F: "m1"},
		{C: "sadd", Key: "k2", F: "m2"}, {C: "del", Key: "k1"},
		{C: "restart", Dev: true}, {C: "crashtear", Dev: true},
	}
}

func c19Tasks(tier string) []Task {
	d, b := 4, 2
	if tier == "thorough" {
		d, b = 5, 2
	}
	tasks := c19LevelTasks(fmt.Sprintf("d%db%d", d, b), c19Alphabet(), d, b, false)
	cd := 6
	if tier == "thorough" {
		cd = 7
	}
	return append(tasks, c19LevelTasks(fmt.Sprintf("crash-d%db3", cd), c19CrashAlphabet(), cd, 3, true)...)
}

func c19LevelTasks(level string, alpha []dtOp, d, b int, finalRestart bool) []Task {
	// reuse enumSeq through Op indices
	idx := make([]Op, len(alpha))
	for i, a := range alpha {
		idx[i] = Op{K: fmt.Sprint(i), Dev: a.Dev}
	}
	cfgs := []Cfg{defaultCfg}
	big := defaultCfg
	big.FileSize = 1 << 20
	big.Index = 1
	cfgs = append(cfgs, big)
	var tasks []Task
	for _, cfg := range cfgs {
		for first := range alpha {
			for second := range alpha {
				cfg, first, second := cfg, first, second
				tasks = append(tasks, Task{Level: level, Name: fmt.Sprintf("%s %s %s %s", level, cfg, alpha[first], alpha[second]), Fn: func(res *TaskResult) {
					enumSeq(idx, d, b, []int{first, second}, func(seq []Op) bool {
						ops := make([]dtOp, len(seq))
						for i, s := range seq {
							var n int
							fmt.Sscan(s.K, &n)
							ops[i] = alpha[n]
						}
						if finalRestart {
							ops = append(ops, dtOp{C: "restart"})
						}
						announce(func() string { return fmt.Sprint(ops) })
						v := runC19(cfg, ops, res)
						if v != nil {
							var dummy TaskResult
							if v2 := runC19(cfg, ops, &dummy); v2 == nil || v2.Clause != v.Clause {
								res.Err = "non-reproducible: " + v.Detail
								return false
							}
							v.Replay = mustJSON(map[string]any{"engine": "seq", "property": "C19", "cfg": cfg, "ops": ops})
							if isKnown(v) {
								addViolation(res, v) // one per signature; exploration goes on
								res.count("known_suppressed", 1)
								return true
							}
							res.Violations = append(res.Violations, *v)
							return len(res.Violations) < 4
						}
						if len(res.Samples) == 0 {
							res.Samples = append(res.Samples, fmt.Sprintf("%s :: %v", cfg, ops))
						}
						return true
					})
				}})
			}
		}
	}
	return tasks
}

func init() {
	register(&Check{
		Prop:   "C19",
		Engine: "seq",
		Rule:   "all command sequences within (depth, deviation bound) over 26 mutating commands on two keys (all five types, deletion, re-creation with another type, clock advance past the TTL, restart); every reply is compared with a data-type model, and after every step a probe battery (every read command on every key/field/member) is compared with the model; across restart the battery must be unchanged. non-trivial = at least two different types were live during the sequence. Crash level: sequences over 5 container commands, restart and crashtear (restart after a crash that tore the previous command's last byte off the log: the command is lost as a whole, the model is rolled back), each followed by an implicit restart: records of a torn batch must stay dead whatever later sessions commit",
		Assumptions: []string{
			"the clock (time.Now in package datatype) is owned by the harness: strictly monotone, advanced by 2 s by the Advance symbol; TTL is 1 s",
			"not judged (sequence pruned there): commands of one type on a container of another type that was emptied but not deleted (Redis removes it, the code keeps its metadata). An expired string is absent for EVERY command",
			"replies for a missing field/member are compared by classification (absent/present) only",
		},
		Tasks: c19Tasks,
		Bounds: func(tier string) map[string]any {
			d, b := 4, 2
			if tier == "thorough" {
				d, b = 5, 2
			}
			idx := make([]Op, 0)
			for _, a := range c19Alphabet() {
				idx = append(idx, Op{Dev: a.Dev})
			}
			return map[string]any{"depth": d, "deviation_bound": b, "commands": len(c19Alphabet()), "sequences_per_config": countSeq(idx, d, b), "configs": 2}
		},
		Replay: func(raw json.RawMessage) {
			var m struct {
				Cfg Cfg    `json:"cfg"`
				Ops []dtOp `json:"ops"`
			}
			json.Unmarshal(raw, &m)
			var res TaskResult
			if v := runC19(m.Cfg, m.Ops, &res); v != nil {
				fmt.Printf("VIOLATION clause=%s\n%s\n", v.Clause, v.Detail)
				os.Exit(1)
			}
			fmt.Println("no violation on this tree")
		},
	})
	_ = sort.Strings
}

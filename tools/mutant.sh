#!/bin/bash
# tools/mutant.sh <patch-file|-> <check> [<check>...]   apply a patch to a scratch copy of /repo and run quick checks on it
set -u
PATCH="$1"; shift
D=$(mktemp -d /dev/shm/mutant.XXXXXX)
trap 'rm -rf "$D"' EXIT
rsync -a --exclude .git /repo/ "$D/repo/"
if [ "$PATCH" = "-" ]; then (cd "$D/repo" && patch -p1 -s); else (cd "$D/repo" && patch -p1 -s < "$PATCH"); fi || { echo "patch failed"; exit 2; }
export GOFLAGS=-mod=mod GOPROXY=off GOSUMDB=off GOTOOLCHAIN=local
if [ "${MUT_TESTS:-0}" = 1 ]; then (cd "$D/repo" && go test -vet=off -count=1 ./... 2>&1 | grep -v "no test files" | tail -8); fi
for c in "$@"; do
  VERIF_REPO="$D/repo" VERIF_OUT="$D/vd" /verif/run.sh "$c" "${MUT_TIER:-quick}" 2>&1 | grep -E "VIOLATION|KNOWN|HARNESS|clause=|^C[0-9]+ " | cut -c1-300 | head -${MUT_LINES:-6}
done

package main

import (
	"fmt"
	"io"
	"os"
	"sort"
	"strconv"
	"strings"

	"github.com/XiXi-2024/xixi-kv/datafile"
)

// Rec is one record decoded from a data file with the package's own sequential reader.
type Rec struct {
	Fid     uint32
	Type    byte
	Key     string
	Value   string
	BatchID uint64
	Pos     datafile.DataPos
}

type FileScan struct {
	Fid     uint32
	Size    int64 // physical size
	Recs    []Rec
	ScanErr string // "" or the error / panic that ended the scan early
}

// scanDataFiles decodes every *.data file of dir (Standard I/O, independent of any open DB).
func scanDataFiles(dir string) ([]FileScan, error) {
	ents, err := os.ReadDir(dir)
	if err != nil {
		return nil, err
	}
	var ids []int
	for _, e := range ents {
		if strings.HasSuffix(e.Name(), datafile.DataFileSuffix) {
			id, err := strconv.Atoi(strings.TrimSuffix(e.Name(), datafile.DataFileSuffix))
			if err == nil {
				ids = append(ids, id)
			}
		}
	}
	sort.Ints(ids)
	var out []FileScan
	for _, id := range ids {
		fs := scanOne(dir, uint32(id), datafile.DataFileSuffix)
		out = append(out, fs)
	}
	return out, nil
}

func scanOne(dir string, id uint32, suffix string) (fs FileScan) {
	fs.Fid = id
	if st, err := os.Stat(datafile.GetFileName(dir, id, suffix)); err == nil {
		fs.Size = st.Size()
	}
	df, err := datafile.OpenFile(dir, id, suffix, 0)
	if err != nil {
		fs.ScanErr = err.Error()
		return
	}
	defer df.Close()
	defer func() {
		if r := recover(); r != nil {
			fs.ScanErr = fmt.Sprintf("panic: %v", r)
		}
	}()
	rd := df.NewReader()
	for {
		lr, pos, err := rd.NextLogRecord()
		if err != nil {
			if err != io.EOF {
				fs.ScanErr = err.Error()
			}
			return
		}
		fs.Recs = append(fs.Recs, Rec{Fid: id, Type: lr.Type, Key: string(lr.Key), Value: string(lr.Value), BatchID: lr.BatchID, Pos: *pos})
	}
}

// liveFromScan replays decoded records the way recovery is specified (later wins, tombstone deletes,
// batch records apply at their sealing record) and returns key -> live record.
func liveFromScan(files []FileScan) map[string]Rec {
	live := map[string]Rec{}
	pending := map[uint64][]Rec{}
	apply := func(r Rec) {
		if r.Type == datafile.LogRecordDeleted {
			delete(live, r.Key)
		} else {
			live[r.Key] = r
		}
	}
	for _, f := range files {
		for _, r := range f.Recs {
			switch {
			case r.BatchID == 0:
				apply(r)
			case r.Type == datafile.LogRecordBatchFinished:
				for _, p := range pending[r.BatchID] {
					apply(p)
				}
				delete(pending, r.BatchID)
			default:
				pending[r.BatchID] = append(pending[r.BatchID], r)
			}
		}
	}
	return live
}

//go:build race

package main

import (
	"bytes"
	"fmt"
	"os"
	"strings"
)

const raceBuild = true

// raceLogPath: the coordinator sets GORACE=log_path=<dir>/race for the workers; the runtime appends ".PID".
func raceLogFile() string {
	for _, f := range strings.Fields(os.Getenv("GORACE")) {
		if v, ok := strings.CutPrefix(f, "log_path="); ok {
			return fmt.Sprintf("%s.%d", v, os.Getpid())
		}
	}
	return ""
}

// raceCount returns the number of race reports written so far by this process.
func raceCount() int {
	p := raceLogFile()
	if p == "" {
		return 0
	}
	data, err := os.ReadFile(p)
	if err != nil {
		return 0
	}
	return bytes.Count(data, []byte("WARNING: DATA RACE"))
}

// raceReport returns the text of the n-th (0-based) race report.
func raceReport(n int) string {
	data, err := os.ReadFile(raceLogFile())
	if err != nil {
		return ""
	}
	parts := strings.Split(string(data), "==================")
	k := 0
	for _, p := range parts {
		if strings.Contains(p, "WARNING: DATA RACE") {
			if k == n {
				return p
			}
			k++
		}
	}
	return ""
}

package main

import (
	"encoding/json"
	"fmt"
	"os"
	"path/filepath"
	"strings"
)

// C03 — crash recovery exposes a prefix of the acknowledged history.

func c03Alphabet(c Cfg) []Op {
	return []Op{
		{K: "put", Key: "a", VC: "S"},
		{K: "put", Key: "b", VC: "S"},
		{K: "del", Key: "a"},
		{K: "put", Key: "a", VC: "L", Dev: true},
		{K: "put", Key: "b", VC: "L", Dev: true},
		{K: "sync", Dev: true},
		{K: "batch", Sub: []Op{{K: "put", Key: "a", VC: "S"}, {K: "del", Key: "b"}}, Dev: true},
		{K: "batch", Sub: []Op{{K: "put", Key: "a", VC: "L"}, {K: "put", Key: "b", VC: "L"}, {K: "put", Key: "a", VC: "S"}}, Dev: true},
		{K: "batch", Arg: 1, Sub: []Op{{K: "put", Key: "b", VC: "S"}, {K: "put", Key: "a", VC: "S"}}, Dev: true},
		// the only operations that rename / remove: a merge, and the restart that adopts it (crash points inside
		// the adopting Open; the nested retries are C07's)
		{K: "merge", Dev: true},
		{K: "restart", Dev: true},
	}
}

// c03MmapAlphabet: also a record that ends in zero bytes (the unwritten rest of a mapped file reads as zeros).
func c03MmapAlphabet(c Cfg) []Op {
	return append(c03Alphabet(c), Op{K: "put", Key: "a", VC: "Z", Dev: true})
}

// c03BlockAlphabet (block family, DataFileSize 1 MiB): multi-block values, records ending next to block boundaries.
func c03BlockAlphabet(c Cfg) []Op {
	return []Op{
		{K: "put", Key: "a", VC: "S"},
		{K: "put", Key: "b", VC: "M"},
		{K: "put", Key: "b", VC: "B", Arg: 3},
		{K: "put", Key: "a", VC: "F", Arg: 40000},
		{K: "batch", Sub: []Op{{K: "put", Key: "a", VC: "S"}, {K: "put", Key: "b", VC: "M"}}},
	}
}

type crashReplay struct {
	Engine string   `json:"engine"`
	Prop   string   `json:"property"`
	Cfg    Cfg      `json:"cfg"`
	Keys   []string `json:"keys"`
	Ops    []Op     `json:"ops"`
	From   int      `json:"from"`
	Trace  string   `json:"trace"`
	Point  string   `json:"crash_point"`
	Cut    string   `json:"cut,omitempty"`
}

// judgeCrash examines every crash point of run (process death and power loss) against the window rule.
// mode: "both", "death" (process death only).
func judgeCrash(prop string, cfg Cfg, keys []string, ops []Op, from int, run *crashRun, res *TaskResult, power bool) *Violation {
	seen := map[uint64]bool{}
	mk := func(clause, sig, detail string, p *crashPoint, cut string) *Violation {
		return &Violation{Prop: prop, Clause: clause, Sig: sig,
			Detail: fmt.Sprintf("cfg=%s trace=[%s]\ncrash point: during op %d, after event #%d %q%s\nimage: %s\n%s", cfg, traceString(ops), p.Op, p.EvSeq, p.Event, cut, p.Snap.listing(), detail),
			Replay: mustJSON(crashReplay{Engine: "crash", Prop: prop, Cfg: cfg, Keys: keys, Ops: ops, From: from, Trace: traceString(ops), Point: fmt.Sprintf("op %d event #%d %s", p.Op, p.EvSeq, p.Event), Cut: cut})}
	}
	for _, p := range run.Points {
		lo, hi := p.Op, p.Op+1 // inside op i: S_i or S_{i+1}
		if p.Ret {
			lo = p.Op + 1 // op i returned: everything acknowledged so far
			hi = p.Op + 1
		}
		if lo < 0 {
			lo = 0
		}
		if hi >= len(run.States) {
			hi = len(run.States) - 1
		}
		if lo > hi {
			lo = hi
		}
		// ---- process death
		h := p.Snap.hash() ^ uint64(lo*131+hi)
		if !seen[h] {
			seen[h] = true
			res.States = append(res.States, p.Snap.hash())
			r := recoverImageCont(p.Snap, cfg, keys, res, func(w *World, d *Dump) string {
				if j := matchState(d, run.States, lo, hi); j >= 0 {
					return continueAfterRecovery(w, run.States[j])
				}
				return ""
			})
			var dv *Violation
			if r.OpenErr != "" {
				dv = mk("death-open-fails", "death-open-fails:"+firstWord(r.OpenErr), "process death: Open failed: "+r.OpenErr, p, "")
			} else if j := matchState(r.Dump, run.States, lo, hi); j < 0 {
				dv = mk("death-not-acknowledged-state", "death-not-acknowledged-state", fmt.Sprintf("process death: recovered %s\nallowed: %s", r.Dump, allowed(run.States, lo, hi)), p, "")
			} else if r.Second != "" {
				clause := "death-second-open"
				if strings.HasPrefix(r.Second, "continuing after recovery") {
					clause = "death-continuation"
				}
				dv = mk(clause, clause, "process death: "+r.Second, p, "")
			}
			if dv != nil {
				if !isKnown(dv) {
					return dv
				}
				addViolation(res, dv)
			}
		}
		if !power {
			continue
		}
		// ---- power loss: every admissible cut
		plo := p.Durable
		if plo > hi {
			plo = hi
		}
		var v *Violation
		cutImages(p, pairCutCap, cutFilter, func(s *Snap, desc string) bool {
			h := s.hash() ^ uint64(plo*977+hi*31+7)
			if seen[h] {
				return true
			}
			seen[h] = true
			res.count("cut_images", 1)
			var r recovery
			if continueAfterCuts {
				r = recoverImageCont(s, cfg, keys, res, func(w *World, d *Dump) string {
					if j := matchState(d, run.States, plo, hi); j >= 0 {
						return continueAfterRecovery(w, run.States[j])
					}
					return ""
				})
			} else {
				r = recoverImage(s, cfg, keys, res)
			}
			var pv *Violation
			if r.OpenErr != "" {
				pv = mk("power-open-fails", "power-open-fails:"+firstWord(r.OpenErr)+":"+tailKind(s), "power loss: Open failed: "+r.OpenErr, p, " + "+desc)
			} else if j := matchState(r.Dump, run.States, plo, hi); j < 0 {
				pv = mk("power-not-a-durable-prefix", "power-not-a-durable-prefix:"+tailKind(s), fmt.Sprintf("power loss: recovered %s\nallowed (durable lower bound %d): %s", r.Dump, plo, allowed(run.States, plo, hi)), p, " + "+desc)
			} else if r.Second != "" {
				clause := "power-second-open"
				if strings.HasPrefix(r.Second, "continuing after recovery") {
					clause = "power-continuation"
				}
				pv = mk(clause, clause+":"+tailKind(s), "power loss: "+r.Second, p, " + "+desc)
			}
			if pv != nil {
				if !isKnown(pv) {
					v = pv
					return false
				}
				addViolation(res, pv)
				res.count("known_suppressed", 1)
			}
			return true
		})
		if v != nil {
			return v
		}
	}
	return nil
}

// tailKind classifies a cut image: "torn-tail" if some data file of the data directory ends inside a
// record (the package's own sequential reader fails or panics on it), else "record-boundary".
func tailKind(s *Snap) string {
	imgSeq++
	root := filepath.Join(scratchRoot(), fmt.Sprintf("img%d-k", imgSeq))
	defer os.RemoveAll(root)
	if err := s.materialize(root); err != nil {
		return "unknown"
	}
	files, err := scanDataFiles(filepath.Join(root, "db"))
	if err != nil {
		return "unknown"
	}
	for _, f := range files {
		if f.ScanErr != "" {
			return "torn-tail"
		}
	}
	return "record-boundary"
}

// cutFilter (optional): which cut lengths of a tail [from,to) are explored (nil = every length).
var cutFilter func(n, from, to int64) bool

// continueAfterCuts: run the post-recovery continuation on power-loss images too (block family).
var continueAfterCuts bool

// pairCutCap: pairs of files are cut at every combination of lengths when the product is below the cap.
var pairCutCap = 4096

func firstWord(s string) string {
	for i, c := range s {
		if c == ':' || c == ' ' {
			return s[:i]
		}
	}
	return s
}

func allowed(states []map[string]string, lo, hi int) string {
	s := ""
	for j := lo; j <= hi && j < len(states); j++ {
		if j >= 0 {
			s += fmt.Sprintf("S%d=%s ", j, modelString(states[j]))
		}
	}
	return s
}

func runC03(cfg Cfg, keys []string, ops []Op, res *TaskResult) *Violation {
	from := len(ops) - 1
	run := recordCrashRun(cfg, keys, ops, from, res)
	if run.Err != "" {
		res.count("workload_failed", 1)
		return nil
	}
	if len(run.Points) > 2 {
		res.Nontrivial++
	}
	res.count("crash_points", int64(len(run.Points)))
	return judgeCrash("C03", cfg, keys, ops, from, run, res, true)
}

func c03Cfgs() []Cfg {
	var out []Cfg
	for _, sy := range []byte{0, 1, 2} {
		c := defaultCfg
		c.Sync = sy
		out = append(out, c)
	}
	return out
}

func c03Tasks(tier string) []Task {
	maxD := 3
	if tier == "thorough" {
		maxD = 4
	}
	// two unclean shutdowns in a row: the second one right after the recovered database acknowledged short writes
	runTwice := func(cfg Cfg, keys []string, ops []Op, res *TaskResult) *Violation {
		secondDeath = true
		defer func() { secondDeath = false }()
		return runC03(cfg, keys, ops, res)
	}
	var levels []seqLevel
	for d := 1; d <= maxD; d++ {
		run := runC03
		if tier == "thorough" || d <= 2 {
			run = runTwice
		}
		levels = append(levels, seqLevel{Name: fmt.Sprintf("len%d", d), Cfgs: c03Cfgs(), Keys: keysAB, Alpha: c03Alphabet, Depth: d, Dev: 3, Run: run, MaxViols: 1})
	}
	tasks := seqTasks("C03", levels)
	// block family: cuts within 16 bytes of every block boundary and of both ends of the tail, every 4096th byte
	// otherwise (declared, not every byte); the recovered database is driven on after EVERY image
	blk := defaultCfg
	blk.FileSize = 1 << 20
	bd := 2
	if tier == "thorough" {
		bd = 3
	}
	runBlock := func(cfg Cfg, keys []string, ops []Op, res *TaskResult) *Violation {
		cutFilter = func(n, from, to int64) bool {
			off := n % 32768
			return off <= 16 || off >= 32768-16 || n-from <= 16 || to-n <= 16 || n%4096 == 0
		}
		continueAfterCuts, secondDeath = true, true
		defer func() { cutFilter, continueAfterCuts, secondDeath = nil, false, false }()
		return runC03(cfg, keys, ops, res)
	}
	var bl []seqLevel
	for d := 1; d <= bd; d++ {
		bl = append(bl, seqLevel{Name: fmt.Sprintf("block-len%d", d), Cfgs: []Cfg{blk}, Keys: keysAB, Alpha: c03BlockAlphabet, Depth: d, Dev: 3, Run: runBlock, MaxViols: 1})
	}
	tasks = append(tasks, seqTasks("C03", bl)...)
	// memory-mapped back-end: a mapped file keeps its 512 MiB size after an unclean shutdown and the bytes that
	// were not flushed read as zeros (cut = zero-fill from the cut position on, physical size unchanged)
	var ml []seqLevel
	md := 2
	if tier == "thorough" {
		md = 3
	}
	var mcfgs []Cfg
	for _, c := range c03Cfgs() {
		c.IO = 1
		mcfgs = append(mcfgs, c)
	}
	for d := 1; d <= md; d++ {
		ml = append(ml, seqLevel{Name: fmt.Sprintf("mmap-len%d", d), Cfgs: mcfgs, Keys: keysAB, Alpha: c03MmapAlphabet, Depth: d, Dev: 3, Run: runTwice, MaxViols: 1})
	}
	// block family on the memory-mapped back-end: records of several chunks torn in their 2nd / 3rd chunk
	mblk := blk
	mblk.IO = 1
	for d := 1; d <= bd; d++ {
		ml = append(ml, seqLevel{Name: fmt.Sprintf("mmap-block-len%d", d), Cfgs: []Cfg{mblk}, Keys: keysAB, Alpha: c03BlockAlphabet, Depth: d, Dev: 3, Run: runBlock, MaxViols: 1})
	}
	// data file ids with a gap (a merge into fewer files, adopted): the newest file is not file number len(files)-1
	gapAlpha := func(c Cfg) []Op {
		return []Op{{K: "gap"}, {K: "put", Key: "a", VC: "S"}, {K: "put", Key: "b", VC: "L"}, {K: "del", Key: "a"},
			{K: "batch", Sub: []Op{{K: "put", Key: "a", VC: "S"}, {K: "del", Key: "b"}}}}
	}
	gm := defaultCfg
	gm.IO = 1
	runGap := func(cfg Cfg, keys []string, ops []Op, res *TaskResult) *Violation {
		if ops[len(ops)-1].K == "gap" {
			return nil // the crash-explored (last) operation must be ONE mutation; "gap" is a macro of six
		}
		return runTwice(cfg, keys, ops, res)
	}
	ml = append(ml, seqLevel{Name: "id-gap-len3", Cfgs: []Cfg{defaultCfg, gm}, Keys: keysAB, Alpha: gapAlpha, Depth: 3, Dev: 3, Run: runGap, MaxViols: 1})
	// memory-mapped with a DataFileSize ABOVE the 512 MiB mapping unit: a file whose logical size was not restored is not
	// rotated away from by the next write (at smaller limits the rotation hides it); the newest file is empty right
	// after a Merge
	bigAlpha := func(c Cfg) []Op {
		return []Op{{K: "put", Key: "a", VC: "S"}, {K: "put", Key: "b", VC: "S"}, {K: "del", Key: "a"}, {K: "merge"}, {K: "restart"}}
	}
	bigm := defaultCfg
	bigm.IO, bigm.FileSize = 1, 1<<30
	ml = append(ml, seqLevel{Name: "mmap-bigfile-len3", Cfgs: []Cfg{bigm}, Keys: keysAB, Alpha: bigAlpha, Depth: 3, Dev: 3, Run: runTwice, MaxViols: 1})
	return append(tasks, seqTasks("C03", ml)...)
}

func init() {
	register(&Check{
		Prop:   "C03",
		Engine: "crash",
		Rule:   "every workload of length 1..d over the alphabet x every sync strategy: a crash image is taken after EVERY intercepted I/O event of the last operation (shorter workloads cover the earlier ones) and after it returned; each image is recovered with the real Open as it is (process death) and with every admissible cut of every unsynced file tail, singly and in pairs (power loss); the recovered dump must equal S_j for j in the acknowledgement / durability window, a second Open must agree, and (process-death images) the recovered database is driven on through a batch, a delete and two more restarts under the reference-map oracle. states = distinct crash images; non-trivial = workloads whose last operation issued more than one I/O event",
		Assumptions: []string{
			"a write call is atomic under process death; power loss cuts unsynced tails (no block reordering inside a tail, directory operations atomic and durable in issue order); Standard I/O: the file is shorter; MMap: the lost bytes read as zeros and the file keeps its mapped size",
			"crash instants are the boundaries of intercepted calls",
		},
		Tasks: c03Tasks,
		Bounds: func(tier string) map[string]any {
			d := 3
			if tier == "thorough" {
				d = 4
			}
			return map[string]any{"workload_length": fmt.Sprintf("1..%d", d), "alphabet": len(c03Alphabet(defaultCfg)), "sync_strategies": 3, "pair_cut_cap": 4096}
		},
		Replay: func(raw json.RawMessage) {
			var r crashReplay
			json.Unmarshal(raw, &r)
			var res TaskResult
			run := recordCrashRun(r.Cfg, r.Keys, r.Ops, r.From, &res)
			if run.Err != "" {
				fmt.Println("workload failed:", run.Err)
				os.Exit(2)
			}
			if v := judgeCrash(r.Prop, r.Cfg, r.Keys, r.Ops, r.From, run, &res, true); v != nil {
				fmt.Printf("VIOLATION clause=%s\n%s\n", v.Clause, v.Detail)
				os.Exit(1)
			}
			fmt.Println("no violation on this tree")
		},
	})
}

package main

import (
	"encoding/json"
	"fmt"
)

// C15 — caller buffers are never retained or modified; returned values never change.

func c15Alphabet(c Cfg) []Op {
	a := []Op{
		{K: "put", Key: "a", VC: "S"},
		{K: "put", Key: "b", VC: "S"},
		{K: "del", Key: "a"},
		{K: "put", Key: "a", VC: "L", Dev: true},
		{K: "put", Key: "b", VC: "L", Dev: true},
		{K: "put", Key: "a", VC: "E", Dev: true},
		{K: "restart", Dev: true},
		{K: "merge", Dev: true},
		{K: "put", Key: "b", VC: "M", Dev: true}, // 3-block value: Get assembles it in a pooled buffer
		{K: "put", Key: "a", VC: "F", Arg: 40000, Dev: true},
	}
	p := func(k, vc string) Op { return Op{K: "put", Key: k, VC: vc} }
	d := func(k string) Op { return Op{K: "del", Key: k} }
	for _, body := range [][]Op{
		{p("a", "S")},
		{p("a", "S"), p("a", "S")},              // repeated Batch.Put on one key
		{p("a", "S"), p("a", "L"), p("b", "S")}, // repeated with a longer value
		{p("a", "S"), d("a"), p("a", "S")},
		{p("b", "S"), p("a", "S"), p("b", "S"), p("a", "S")},
		{d("a"), p("b", "S")},
		{d("a"), p("a", "S")}, // a tombstone staged for an existing key, turned back into a put
	} {
		a = append(a, Op{K: "batch", Sub: body, Dev: true})
	}
	// the same through a batch the caller never reads from in between (a Batch.Get would refresh whatever the
	// batch remembers about its last lookup)
	a = append(a, Op{K: "batch", Arg: 2, Sub: []Op{p("a", "S"), p("a", "L"), p("b", "S")}, Dev: true})
	a = append(a, Op{K: "batch", Arg: 2, Sub: []Op{p("b", "S"), d("b"), d("a")}, Dev: true})
	return a
}

func runC15(cfg Cfg, keys []string, ops []Op, res *TaskResult) *Violation {
	beginExecution()
	w := NewWorld(cfg, keys)
	w.Adversarial = true
	defer w.Destroy()
	res.Execs++
	if err := w.Open(); err != nil {
		return viol("C15", "open-fresh", "open-fresh", panicDetail(err))
	}
	repeated := false
	for i, op := range ops {
		ar := w.Apply(op)
		res.Transitions++
		if errClass(ar.Err) == "panic" {
			return viol("C15", "panic", "panic:"+op.K, fmt.Sprintf("step %d %s (caller reuses its buffers): %s", i, op, panicDetail(ar.Err)))
		}
		if w.Dead || w.DB == nil {
			return nil
		}
		res.Evals++
		if w.Alias != "" {
			return viol("C15", "caller-buffer-modified", "caller-buffer-modified", fmt.Sprintf("step %d %s: %s", i, op, w.Alias))
		}
		if ar.Clause == "batch-get-wrong" {
			return viol("C15", "retained:batch-get-wrong", "retained:batch-get-wrong", fmt.Sprintf("step %d %s (every key, Batch.Get's included, goes through one reused buffer): %s", i, op, ar.Detail))
		}
		if c, d := w.CheckReads(); c != "" {
			return viol("C15", "retained:"+c, "retained:"+c, fmt.Sprintf("step %d %s: with the caller's key/value buffers overwritten after each return: %s\nmodel=%s", i, op, d, modelString(w.Model)))
		}
		w.checkCanary(fmt.Sprintf("after the reads following step %d", i))
		if w.Alias != "" {
			return viol("C15", "caller-buffer-modified", "caller-buffer-modified", fmt.Sprintf("step %d %s: %s", i, op, w.Alias))
		}
		if d := w.KeptChanged(); d != "" {
			return viol("C15", "returned-slice-changed", "returned-slice-changed", fmt.Sprintf("step %d %s: %s", i, op, d))
		}
		if op.K == "batch" && len(op.Sub) > 1 {
			repeated = true
		}
	}
	res.States = append(res.States, w.StateHash())
	if repeated {
		res.Nontrivial++
	}
	return nil
}

func c15Cfgs() []Cfg {
	var out []Cfg
	for _, ix := range []int8{1, 2, 3} {
		c := defaultCfg
		c.Index = ix
		out = append(out, c)
		c.Shards = 1
		out = append(out, c)
	}
	big := defaultCfg
	big.FileSize = 1 << 20 // multi-block values stay in one file together with small records
	out = append(out, big)
	return out
}

func init() {
	register(&Check{
		Prop:   "C15",
		Engine: "seq",
		Rule:   "operation sequences executed by an adversarial caller: ONE key buffer and ONE value buffer are reused for every Put/Delete/Batch.Put/Batch.Delete and overwritten with a poison pattern after each return; every slice returned by Get/ListKeys/Batch.Get is kept with a private copy, and a second slice returned by Batch.Get for every key after every staging call is scribbled over by the caller. Oracles: reference map on every read path, canary check of the caller's buffers before every reuse and after every step, kept slices unchanged. non-trivial = sequence contains a batch staging several operations",
		Assumptions: []string{
			"sync.Pool is a deterministic LIFO free list, so a record parked with a foreign slice is the next one handed out (the adversarial legal behaviour)",
			"a slice returned by Batch.Get is the caller's like one returned by DB.Get (the statement says Get)",
		},
		Tasks: func(tier string) []Task {
			if tier == "thorough" {
				// (d5 b3 - 444 k sequences per configuration - no longer fits the 25 minutes since the alphabet grew)
				return seqTasks("C15", []seqLevel{
					{Name: "d5b2", Cfgs: c15Cfgs(), Keys: keysAB, Alpha: c15Alphabet, Depth: 5, Dev: 2, Run: runC15},
					{Name: "d4b3", Cfgs: c15Cfgs(), Keys: keysAB, Alpha: c15Alphabet, Depth: 4, Dev: 3, Run: runC15},
				})
			}
			d, b := 4, 2
			return seqTasks("C15", []seqLevel{{Name: fmt.Sprintf("d%db%d", d, b), Cfgs: c15Cfgs(), Keys: keysAB, Alpha: c15Alphabet, Depth: d, Dev: b, Run: runC15}})
		},
		Bounds: func(tier string) map[string]any {
			if tier == "thorough" {
				return map[string]any{"levels": "depth 5 deviation bound 2; depth 4 deviation bound 3", "configs": len(c15Cfgs()),
					"sequences_per_config": countSeq(c15Alphabet(defaultCfg), 5, 2) + countSeq(c15Alphabet(defaultCfg), 4, 3)}
			}
			d, b := 4, 2
			return map[string]any{"depth": d, "deviation_bound": b, "configs": len(c15Cfgs()), "sequences_per_config": countSeq(c15Alphabet(defaultCfg), d, b)}
		},
		Replay: func(raw json.RawMessage) { seqReplayMain(raw, runC15) },
	})
}

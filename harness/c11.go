package main

import (
	"bytes"
	"encoding/json"
	"errors"
	"fmt"
	"io"
	"os"
	"path/filepath"

	"github.com/XiXi-2024/xixi-kv/datafile"
	"github.com/XiXi-2024/xixi-kv/verifrt/iorec"
)

// C11 — block/chunk framing round-trips every record at every offset (data-file level sweep).

type recSpec struct {
	Key     string `json:"key"`
	VLen    int    `json:"vlen"`
	Type    byte   `json:"type"`
	BatchID uint64 `json:"batch_id"`
}

type c11Case struct {
	FillerEnd int       `json:"filler_end"` // the filler record is sized so that the file ends here (mod 32768) before Recs
	Recs      []recSpec `json:"recs"`
	Staged    bool      `json:"staged"` // Recs written by one FlushStaged instead of single writes
}

func (c c11Case) String() string {
	return fmt.Sprintf("filler_end=%d staged=%v recs=%v", c.FillerEnd, c.Staged, c.Recs)
}

var patternPool = func() []byte {
	b := make([]byte, 1<<18)
	for i := range b {
		b[i] = byte((i*131 + i/251 + i/65521) % 251)
	}
	return b
}()

// patternBytes returns n deterministic bytes (a window of a fixed non-periodic pattern, chosen by seed).
func patternBytes(n, seed int) []byte {
	off := (seed * 7919) % (1 << 16)
	if off+n > len(patternPool) {
		b := make([]byte, n)
		for i := range b {
			b[i] = patternPool[(off+i)%len(patternPool)]
		}
		return b
	}
	return patternPool[off : off+n : off+n]
}

type writtenRec struct {
	rec datafile.LogRecord
	pos datafile.DataPos
}

var c11Seq int

// c11Run executes one case under one back-end; returns the file bytes after Close.
// fillerLen < 0 means "no filler record".
func c11Run(ioType byte, fillerLen int, c c11Case, res *TaskResult) (v *Violation, fileBytes []byte, startOff int64) {
	c11Seq++
	dir := filepath.Join(scratchRoot(), fmt.Sprintf("c11-%d", c11Seq))
	os.MkdirAll(dir, 0o755)
	defer os.RemoveAll(dir)
	path := datafile.GetFileName(dir, 7, datafile.DataFileSuffix)
	fail := func(clause, format string, a ...any) *Violation {
		return viol("C11", clause, clause, fmt.Sprintf("io=%d case %s: ", ioType, c)+fmt.Sprintf(format, a...))
	}
	defer func() {
		if r := recover(); r != nil {
			v = fail("panic", "panic: %v @ %s", r, trimStack(stack()))
		}
	}()
	df, err := datafile.OpenFile(dir, 7, datafile.DataFileSuffix, ioType)
	if err != nil {
		return fail("open", "OpenFile: %v", err), nil, 0
	}
	hdr := make([]byte, datafile.MaxLogRecordHeaderSize)
	var written []writtenRec
	physSize := func() int64 {
		st, err := os.Stat(path)
		if err != nil {
			return -1
		}
		return st.Size()
	}
	prevEnd := int64(0)
	checkPos := func(pos *datafile.DataPos, what string) *Violation {
		start := int64(pos.BlockID)*32768 + int64(pos.Offset)
		gap := start - prevEnd
		if gap != 0 && !(pos.Offset == 0 && gap > 0 && gap < 32) {
			return fail("position", "%s: position %+v starts %d bytes after the end of the previous record (%d)", what, *pos, gap, prevEnd)
		}
		if pos.Fid != 7 {
			return fail("position", "%s: position names file %d", what, pos.Fid)
		}
		prevEnd = start + int64(pos.Size)
		if got := df.Size(); got != prevEnd {
			return fail("logical-size", "%s: DataFile.Size() = %d, end of the last record = %d", what, got, prevEnd)
		}
		if ioType == 0 {
			if ps := physSize(); ps != prevEnd {
				return fail("physical-size", "%s: os.Stat size = %d, DataFile.Size() = %d", what, ps, prevEnd)
			}
		}
		return nil
	}
	writeOne := func(r recSpec, seed int, what string) *Violation {
		rec := datafile.LogRecord{Type: r.Type, Key: []byte(r.Key), Value: patternBytes(r.VLen, seed), BatchID: r.BatchID}
		pos, err := df.WriteLogRecord(&rec, hdr)
		if err != nil {
			return fail("write-error", "%s: WriteLogRecord: %v", what, err)
		}
		res.Transitions++
		written = append(written, writtenRec{rec: rec, pos: *pos})
		return checkPos(pos, what)
	}
	if fillerLen >= 0 {
		if v := writeOne(recSpec{Key: "f", VLen: fillerLen}, 1, "filler"); v != nil {
			return v, nil, 0
		}
	}
	startOff = prevEnd
	if c.Staged {
		var recs []datafile.LogRecord
		for i, r := range c.Recs {
			rec := datafile.LogRecord{Type: r.Type, Key: []byte(r.Key), Value: patternBytes(r.VLen, 2+i), BatchID: r.BatchID}
			recs = append(recs, rec)
			df.WriteStagedLogRecord(&recs[i], hdr)
		}
		poss, err := df.FlushStaged()
		if err != nil {
			return fail("write-error", "FlushStaged: %v", err), nil, startOff
		}
		if len(poss) != len(recs) {
			return fail("flush-count", "FlushStaged returned %d positions for %d records", len(poss), len(recs)), nil, startOff
		}
		res.Transitions++
		save := prevEnd
		for i := range recs {
			written = append(written, writtenRec{rec: recs[i], pos: *poss[i]})
			// logical size is only meaningful after the whole flush: check geometry only
			start := int64(poss[i].BlockID)*32768 + int64(poss[i].Offset)
			gap := start - save
			if gap != 0 && !(poss[i].Offset == 0 && gap > 0 && gap < 32) {
				return fail("position", "staged record %d: position %+v starts %d bytes after the previous end %d", i, *poss[i], gap, save), nil, startOff
			}
			save = start + int64(poss[i].Size)
		}
		prevEnd = save
		if got := df.Size(); got != prevEnd {
			return fail("logical-size", "after FlushStaged: DataFile.Size() = %d, end of the last record = %d", got, prevEnd), nil, startOff
		}
		if ioType == 0 {
			if ps := physSize(); ps != prevEnd {
				return fail("physical-size", "after FlushStaged: os.Stat size = %d, DataFile.Size() = %d", ps, prevEnd), nil, startOff
			}
		}
	} else {
		for i, r := range c.Recs {
			if v := writeOne(r, 2+i, fmt.Sprintf("record %d", i)); v != nil {
				return v, nil, startOff
			}
		}
	}
	verify := func(df *datafile.DataFile, when string) *Violation {
		rd := df.NewReader()
		for i, w := range written {
			lr, pos, err := rd.NextLogRecord()
			res.Evals++
			if err != nil {
				return fail("seq-read", "%s: sequential read of record %d/%d: %v", when, i, len(written), err)
			}
			if *pos != w.pos {
				return fail("seq-position", "%s: record %d read at %+v, written at %+v", when, i, *pos, w.pos)
			}
			if lr.Type != w.rec.Type || !bytes.Equal(lr.Key, w.rec.Key) || !bytes.Equal(lr.Value, w.rec.Value) || lr.BatchID != w.rec.BatchID {
				return fail("seq-content", "%s: record %d differs (type %d/%d, key %q/%q, value len %d/%d, batch %d/%d)", when, i, lr.Type, w.rec.Type, lr.Key, w.rec.Key, len(lr.Value), len(w.rec.Value), lr.BatchID, w.rec.BatchID)
			}
		}
		if _, _, err := rd.NextLogRecord(); err != io.EOF {
			return fail("seq-eof", "%s: after the last record the reader returned %v, want io.EOF", when, err)
		}
		for i, w := range written {
			p := w.pos
			val, err := df.ReadRecordValue(&p)
			res.Evals++
			if err != nil {
				return fail("random-read", "%s: ReadRecordValue(record %d at %+v): %v", when, i, p, err)
			}
			if !bytes.Equal(val, w.rec.Value) {
				return fail("random-content", "%s: ReadRecordValue(record %d at %+v) returned %d bytes differing from the %d written", when, i, p, len(val), len(w.rec.Value))
			}
		}
		return nil
	}
	if v := verify(df, "before close"); v != nil {
		return v, nil, startOff
	}
	if err := df.Close(); err != nil {
		return fail("close", "Close: %v", err), nil, startOff
	}
	if ps := physSize(); ps != prevEnd {
		return fail("physical-size", "after Close: os.Stat size = %d, logical size = %d", ps, prevEnd), nil, startOff
	}
	fileBytes, _ = os.ReadFile(path)
	// reopen and append
	df, err = datafile.OpenFile(dir, 7, datafile.DataFileSuffix, ioType)
	if err != nil {
		return fail("reopen", "OpenFile (reopen): %v", err), fileBytes, startOff
	}
	if got := df.Size(); got != prevEnd {
		return fail("logical-size", "after reopen: DataFile.Size() = %d, want %d", got, prevEnd), fileBytes, startOff
	}
	if v := verify(df, "after reopen"); v != nil {
		return v, fileBytes, startOff
	}
	if v := writeOne(recSpec{Key: "z", VLen: 5}, 9, "append after reopen"); v != nil {
		return v, fileBytes, startOff
	}
	if v := verify(df, "after reopen+append"); v != nil {
		return v, fileBytes, startOff
	}
	// a write the device refuses appends nothing: size and the next position stay where they were
	{
		saveBefore := iorec.Before
		refused := 0
		iorec.Before = func(op, path, path2 string, n int64) error {
			if op == "write" || op == "rw.write" || op == "writeat" {
				refused++
				return errors.New("injected: the device refuses this write")
			}
			return nil
		}
		rec := datafile.LogRecord{Key: []byte("q"), Value: patternBytes(40, 11)}
		_, werr := df.WriteLogRecord(&rec, hdr)
		iorec.Before = saveBefore
		if refused > 0 {
			res.count("refused_writes", 1)
			if werr == nil {
				return fail("write-error-swallowed", "the device refused the write but WriteLogRecord returned nil"), fileBytes, startOff
			}
			if got := df.Size(); got != prevEnd {
				return fail("logical-size", "after a refused write: DataFile.Size() = %d, end of the last record = %d", got, prevEnd), fileBytes, startOff
			}
			if v := writeOne(recSpec{Key: "x", VLen: 6}, 12, "append after a refused write"); v != nil {
				return v, fileBytes, startOff
			}
			if v := verify(df, "after refused write+append"); v != nil {
				return v, fileBytes, startOff
			}
		}
		// a SHORT write (Standard I/O): the device stores the first half of the record and then fails. Nothing was
		// appended as far as the caller knows: size and the next position stay, the half record must not be in the way
		if ioType == 0 {
			iorec.Before = func(op, path, path2 string, n int64) error {
				if op == "write" && n > 1 {
					return &iorec.ShortWrite{N: int(n / 2)}
				}
				return nil
			}
			rec := datafile.LogRecord{Key: []byte("h"), Value: patternBytes(50, 16)}
			_, werr := df.WriteLogRecord(&rec, hdr)
			iorec.Before = saveBefore
			if werr == nil {
				return fail("write-error-swallowed", "the device stored half of the record and failed, but WriteLogRecord returned nil"), fileBytes, startOff
			}
			if got := df.Size(); got != prevEnd {
				return fail("logical-size", "after a short write: DataFile.Size() = %d, end of the last record = %d", got, prevEnd), fileBytes, startOff
			}
			if v := writeOne(recSpec{Key: "w", VLen: 6}, 17, "append after a short write"); v != nil {
				return v, fileBytes, startOff
			}
			if v := verify(df, "after short write+append"); v != nil {
				return v, fileBytes, startOff
			}
		}
		// the same for a staged group: a refused FlushStaged appends nothing, and the records it was given are gone -
		// the next group consists of its own records only
		if c.Staged {
			iorec.Before = func(op, path, path2 string, n int64) error {
				if op == "write" || op == "rw.write" || op == "writeat" {
					return errors.New("injected: the device refuses this write")
				}
				return nil
			}
			r1 := datafile.LogRecord{Key: []byte("g1"), Value: patternBytes(30, 13), BatchID: 99}
			r2 := datafile.LogRecord{Key: []byte("g2"), Value: patternBytes(5, 14), BatchID: 99}
			df.WriteStagedLogRecord(&r1, hdr)
			df.WriteStagedLogRecord(&r2, hdr)
			_, ferr := df.FlushStaged()
			iorec.Before = saveBefore
			if ferr == nil {
				return fail("write-error-swallowed", "the device refused the write but FlushStaged returned nil"), fileBytes, startOff
			}
			if got := df.Size(); got != prevEnd {
				return fail("logical-size", "after a refused FlushStaged: DataFile.Size() = %d, end of the last record = %d", got, prevEnd), fileBytes, startOff
			}
			r3 := datafile.LogRecord{Key: []byte("g3"), Value: patternBytes(7, 15), BatchID: 100}
			df.WriteStagedLogRecord(&r3, hdr)
			poss, err := df.FlushStaged()
			if err != nil {
				return fail("write-error", "FlushStaged after a refused one: %v", err), fileBytes, startOff
			}
			if len(poss) != 1 {
				return fail("flush-count", "FlushStaged after a refused one returned %d positions for the 1 record staged since (the refused group was written after all)", len(poss)), fileBytes, startOff
			}
			written = append(written, writtenRec{rec: r3, pos: *poss[0]})
			if v := checkPos(poss[0], "group after a refused FlushStaged"); v != nil {
				return v, fileBytes, startOff
			}
			if v := verify(df, "after refused FlushStaged+group"); v != nil {
				return v, fileBytes, startOff
			}
		}
	}
	if err := df.Close(); err != nil {
		return fail("close", "Close: %v", err), fileBytes, startOff
	}
	if ps := physSize(); ps != prevEnd {
		return fail("physical-size", "after reopen+append+Close: os.Stat size = %d, logical size = %d", ps, prevEnd), fileBytes, startOff
	}
	// truncate back to the end of the first record after the filler (what torn-tail recovery does), then append:
	// logical and physical size must follow, positions must continue from the new end
	if len(c.Recs) > 0 {
		keep := 1
		if fillerLen >= 0 {
			keep = 2
		}
		if keep < len(written) {
			cutAt := int64(written[keep].pos.BlockID)*32768 + int64(written[keep].pos.Offset)
			// a record that starts a block after tail padding: the cut goes to the end of the previous record
			prev := written[keep-1].pos
			if e := int64(prev.BlockID)*32768 + int64(prev.Offset) + int64(prev.Size); e < cutAt {
				cutAt = e
			}
			df, err = datafile.OpenFile(dir, 7, datafile.DataFileSuffix, ioType)
			if err != nil {
				return fail("reopen", "OpenFile (before truncate): %v", err), fileBytes, startOff
			}
			if err := df.Truncate(cutAt); err != nil {
				return fail("truncate", "Truncate(%d): %v", cutAt, err), fileBytes, startOff
			}
			written = written[:keep]
			prevEnd = cutAt
			if got := df.Size(); got != cutAt {
				return fail("logical-size", "after Truncate(%d): DataFile.Size() = %d", cutAt, got), fileBytes, startOff
			}
			if ioType == 0 {
				if ps := physSize(); ps != cutAt {
					return fail("physical-size", "after Truncate(%d): os.Stat size = %d", cutAt, ps), fileBytes, startOff
				}
			}
			if v := verify(df, "after truncate"); v != nil {
				return v, fileBytes, startOff
			}
			if v := writeOne(recSpec{Key: "y", VLen: 9}, 10, "append after truncate"); v != nil {
				return v, fileBytes, startOff
			}
			if v := verify(df, "after truncate+append"); v != nil {
				return v, fileBytes, startOff
			}
			if err := df.Close(); err != nil {
				return fail("close", "Close: %v", err), fileBytes, startOff
			}
			if ps := physSize(); ps != prevEnd {
				return fail("physical-size", "after truncate+append+Close: os.Stat size = %d, logical size = %d", ps, prevEnd), fileBytes, startOff
			}
		}
	}
	return nil, fileBytes, startOff
}

// overhead of a record with a 1-byte key and value length n is measured once per worker, not assumed.
var c11Overhead = map[int]int{}

func c11FillerLen(end int, res *TaskResult) (int, bool) {
	// returns the filler value length that makes the file end at `end` (mod 32768), measured by trial.
	if end == 0 {
		return -1, true
	}
	guess := end - 12
	for try := 0; try < 4; try++ {
		n := ((guess % 32768) + 32768) % 32768
		var dummy TaskResult
		_, _, start := c11Run(0, n, c11Case{}, &dummy)
		got := int(start % 32768)
		if got == end {
			return n, true
		}
		guess += end - got
	}
	return 0, false
}

func c11Exec(c c11Case, fillerLen int, res *TaskResult, withMMap bool) *Violation {
	res.Execs++
	v, std, _ := c11Run(0, fillerLen, c, res)
	if v != nil {
		return v
	}
	if withMMap {
		res.Execs++
		v, mm, _ := c11Run(1, fillerLen, c, res)
		if v != nil {
			return v
		}
		if !bytes.Equal(std, mm) {
			return viol("C11", "backends-differ", "backends-differ", fmt.Sprintf("case %s: FileIO file has %d bytes, MMap file %d bytes, or contents differ", c, len(std), len(mm)))
		}
	}
	return nil
}

// c11Cases enumerates the record shapes swept after the filler for one start offset.
func c11Cases(fillerEnd int, window int, thorough bool, visit func(c c11Case, d int) bool) {
	// the record that follows starts at fillerEnd (or at the next block if fillerEnd is in the pad zone)
	start := fillerEnd
	if start+7 >= 32768 {
		start = 0
	}
	over := 12 // rough framing estimate; the window is wide enough to make it irrelevant
	spans := []int{0, 1, 2}
	for _, span := range spans {
		for d := -window; d <= window; d++ {
			vlen := (span+1)*32768 - start - over - span*7 - d
			if vlen < 0 {
				continue
			}
			for _, staged := range []bool{false, true} {
				recs := []recSpec{{Key: "k", VLen: vlen}, {Key: "t", VLen: 3, Type: datafile.LogRecordDeleted}}
				if staged {
					recs[0].BatchID, recs[1].BatchID = 1<<62+12345, 1<<62+12345
				}
				if !visit(c11Case{FillerEnd: fillerEnd, Recs: recs, Staged: staged}, d) {
					return
				}
			}
		}
	}
	// tiny records and a three-record group
	for _, vlen := range []int{0, 1, 2} {
		for _, staged := range []bool{false, true} {
			recs := []recSpec{{Key: "k", VLen: vlen}, {Key: "kk", VLen: vlen + 1}, {Key: "t", VLen: 0, Type: datafile.LogRecordBatchFinished, BatchID: 77}}
			if !visit(c11Case{FillerEnd: fillerEnd, Recs: recs, Staged: staged}, 0) {
				return
			}
		}
	}
}

func c11Tasks(tier string) []Task {
	var tasks []Task
	chunk := 16
	for lo := 0; lo < 32768; lo += chunk {
		lo := lo
		inQuickSet := lo < 128 || lo >= 32768-128 || lo%4096 == 2048 || lo%4096 == 2064
		if tier == "quick" && !inQuickSet {
			continue
		}
		// thorough: every start offset; the record-length window is +-48 on the quick tier's offsets, +-16 elsewhere
		window := 48
		if !inQuickSet {
			window = 16
		}
		tasks = append(tasks, Task{Level: "offset-sweep", Name: fmt.Sprintf("start offsets %d..%d", lo, lo+chunk-1), Fn: func(res *TaskResult) {
			for e := lo; e < lo+chunk; e++ {
				fl, ok := c11FillerLen(e, res)
				if !ok {
					res.count("start_offsets_unreachable", 1)
					continue
				}
				res.count("start_offsets_hit", 1)
				stop := false
				c11Cases(e, window, tier == "thorough", func(c c11Case, d int) bool {
					announce(func() string { return c.String() })
					// MMap: everything in the quick tier's offset set; in the thorough tier (all offsets) the
					// boundary-critical part of the window (the back-ends differ in the I/O layer only)
					withMM := tier == "quick" || (d >= -12 && d <= 12)
					v := c11Exec(c, fl, res, withMM)
					res.Nontrivial++
					res.States = append(res.States, hash64(fmt.Sprint(e, c.Recs[0].VLen%32768, c.Staged)))
					if v != nil {
						v.Replay = mustJSON(map[string]any{"engine": "sweep", "property": "C11", "case": c, "filler_len": fl})
						res.Violations = append(res.Violations, *v)
						stop = len(res.Violations) >= 3
						return !stop
					}
					return true
				})
				if stop {
					return
				}
			}
			if len(res.Samples) == 0 {
				res.Samples = append(res.Samples, fmt.Sprintf("filler ends at %d..%d; then record lengths in +-%d windows around 1,2,3 block boundaries, single writes and FlushStaged groups, FileIO and MMap", lo, lo+chunk-1, window))
			}
		}})
	}
	tasks = append(tasks, Task{Level: "hint", Name: "hint records", Fn: c11Hint})
	return tasks
}

// c11Hint sweeps hint records through the same writer/reader.
func c11Hint(res *TaskResult) {
	keys := []string{"a", "\x80\x01", "\xff\xff\xff\xff\xff", "\x00", "k\x80", string(patternBytes(300, 3)), string(patternBytes(40000, 4))}
	poss := []datafile.DataPos{{Fid: 0, BlockID: 0, Offset: 0, Size: 12}, {Fid: 1, BlockID: 127, Offset: 128, Size: 16384}, {Fid: 1<<32 - 1, BlockID: 1<<32 - 1, Offset: 32767, Size: 1<<32 - 1}, {Fid: 300, BlockID: 70000, Offset: 9, Size: 200}}
	for _, ioType := range []byte{0, 1} {
		for _, fillerEnd := range []int{0, 100, 32750, 32761} {
			func() {
				c11Seq++
				dir := filepath.Join(scratchRoot(), fmt.Sprintf("c11h-%d", c11Seq))
				os.MkdirAll(dir, 0o755)
				defer os.RemoveAll(dir)
				res.Execs++
				fail := func(format string, a ...any) {
					res.Violations = append(res.Violations, *viol("C11", "hint-roundtrip", "hint-roundtrip", fmt.Sprintf("io=%d filler_end=%d: ", ioType, fillerEnd)+fmt.Sprintf(format, a...)))
				}
				defer func() {
					if r := recover(); r != nil {
						fail("panic: %v @ %s", r, trimStack(stack()))
					}
				}()
				df, err := datafile.OpenFile(dir, 0, datafile.HintFileSuffix, ioType)
				if err != nil {
					fail("OpenFile: %v", err)
					return
				}
				hp := make([]byte, datafile.MaxLogRecordPosSize)
				type ent struct {
					k string
					p datafile.DataPos
				}
				var want []ent
				if fillerEnd > 0 {
					k := string(patternBytes(fillerEnd-7-4, 5))
					p := poss[0]
					if err := df.WriteHintRecord([]byte(k), hp, &p); err != nil {
						fail("WriteHintRecord: %v", err)
						return
					}
					want = append(want, ent{k, p})
				}
				for _, k := range keys {
					for _, p := range poss {
						p := p
						if err := df.WriteHintRecord([]byte(k), hp, &p); err != nil {
							fail("WriteHintRecord: %v", err)
							return
						}
						res.Transitions++
						want = append(want, ent{k, p})
					}
				}
				rd := df.NewReader()
				for i, w := range want {
					k, p, err := rd.NextHintRecord()
					res.Evals++
					if err != nil {
						fail("NextHintRecord #%d: %v", i, err)
						return
					}
					if string(k) != w.k || *p != w.p {
						fail("hint record #%d: read (%q,%+v), written (%q,%+v)", i, truncate(string(k), 20), *p, truncate(w.k, 20), w.p)
						return
					}
				}
				if _, _, err := rd.NextHintRecord(); err != io.EOF {
					fail("after the last hint record: %v, want io.EOF", err)
				}
				df.Close()
				res.Nontrivial++
			}()
		}
	}
	res.Samples = append(res.Samples, "hint records: 7 keys (varint-like, 300 B, 40000 B) x 4 positions (incl. max uint32 fields) after fillers ending at 0/100/32750/32761, both back-ends")
}

func init() {
	register(&Check{
		Prop:   "C11",
		Engine: "sweep",
		Rule:   "for every reachable start offset of the sweep set: record lengths in a +-48 window around the end-of-block boundary for records spanning 1, 2 and 3 blocks, plus tiny records; each as single writes and as one FlushStaged group; FileIO and MMap; sequential + random read-back, sizes, positions, EOF, byte-identical files, reopen + append. Every case is distinct by construction",
		Assumptions: []string{
			"format-agnostic oracle: positions/sizes are those the writer returned; the only constant is 'a gap before a record is < 32 bytes and only when the record starts a block'",
			"quick tier: start offsets 0..127, 32640..32767 and 64 offsets in the middle of every 4 KiB (record lengths +-48 around 1, 2, 3 block ends); thorough tier: all 32768 start offsets (+-16 outside the quick tier's offsets; MMap within +-12)",
		},
		Tasks: c11Tasks,
		Bounds: func(tier string) map[string]any {
			if tier == "quick" {
				return map[string]any{"start_offsets": 256 + 8*64, "window": 48, "spans": 3, "shapes": 2, "backends": 2}
			}
			return map[string]any{"start_offsets": 32768, "window": 48, "spans": 3, "shapes": 2, "backends": 2}
		},
		Replay: func(raw json.RawMessage) {
			var m struct {
				Case      c11Case `json:"case"`
				FillerLen int     `json:"filler_len"`
			}
			json.Unmarshal(raw, &m)
			var res TaskResult
			if v := c11Exec(m.Case, m.FillerLen, &res, true); v != nil {
				fmt.Printf("VIOLATION clause=%s\n%s\n", v.Clause, v.Detail)
				os.Exit(1)
			}
			fmt.Println("no violation on this tree")
		},
	})
}

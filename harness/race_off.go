//go:build !race

package main

const raceBuild = false

func raceCount() int          { return 0 }
func raceReport(n int) string { return "" }

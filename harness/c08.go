package main

import (
	"encoding/json"
	"fmt"
	"os"
	"sort"
	"strings"

	"github.com/anishathalye/porcupine"

	"github.com/XiXi-2024/xixi-kv/verifrt/sched"
	"github.com/XiXi-2024/xixi-kv/verifrt/vos"
)

// C08 — concurrent Put/Get/Delete are linearizable and agree with restart recovery.

var c08Calls = []Call{{K: "put", Key: "a"}, {K: "put", Key: "b"}, {K: "del", Key: "a"}, {K: "get", Key: "a"}, {K: "get", Key: "b"}}

type regIn struct {
	op  string
	val string
}
type regOut struct {
	val   string
	found bool
}

const absent = "\x00absent"

func registerModel(init string) porcupine.Model {
	return porcupine.Model{
		Init: func() interface{} { return init },
		Step: func(state, input, output interface{}) (bool, interface{}) {
			st := state.(string)
			in := input.(regIn)
			out := output.(regOut)
			switch in.op {
			case "put":
				return true, in.val
			case "del":
				return true, absent
			case "get":
				if st == absent {
					return !out.found, st
				}
				return out.found && out.val == st, st
			}
			return false, st
		},
		Equal: func(a, b interface{}) bool { return a.(string) == b.(string) },
	}
}

// checkLinearizable checks the per-key history (plus the final live reads) against the register model.
func checkLinearizable(ex *ExecResult, initial map[string]string) string {
	byKey := map[string][]porcupine.Operation{}
	var maxT int64
	for _, c := range ex.Calls {
		if c.T1 > maxT {
			maxT = c.T1
		}
		if c.Err != "nil" {
			continue // failed calls are judged elsewhere (internal errors)
		}
		switch c.Call.K {
		case "put", "batch":
			byKey[c.Call.Key] = append(byKey[c.Call.Key], porcupine.Operation{ClientId: c.Thread, Input: regIn{"put", c.Val}, Call: c.T0, Output: regOut{}, Return: c.T1})
		case "del":
			byKey[c.Call.Key] = append(byKey[c.Call.Key], porcupine.Operation{ClientId: c.Thread, Input: regIn{"del", ""}, Call: c.T0, Output: regOut{}, Return: c.T1})
		case "get":
			byKey[c.Call.Key] = append(byKey[c.Call.Key], porcupine.Operation{ClientId: c.Thread, Input: regIn{"get", ""}, Call: c.T0, Output: regOut{c.Val, c.Found}, Return: c.T1})
		}
	}
	for _, k := range keysAB {
		ops := byKey[k]
		if ex.Live != nil && ex.Live.Err == "" {
			v, ok := ex.Live.KV[k]
			ops = append(ops, porcupine.Operation{ClientId: 7, Input: regIn{"get", ""}, Call: maxT + 1, Output: regOut{v, ok}, Return: maxT + 2})
		}
		init := absent
		if v, ok := initial[k]; ok {
			init = v
		}
		if len(ops) == 0 {
			continue
		}
		if !porcupine.CheckOperations(registerModel(init), ops) {
			return fmt.Sprintf("the history of key %q is not linearizable: %s (initial %q)", k, renderHistory(ex, k), init)
		}
	}
	return ""
}

func renderHistory(ex *ExecResult, key string) string {
	var cs []CallRec
	for _, c := range ex.Calls {
		if c.Call.Key == key {
			cs = append(cs, c)
		}
	}
	sort.Slice(cs, func(i, j int) bool { return cs[i].T0 < cs[j].T0 })
	var b strings.Builder
	for _, c := range cs {
		fmt.Fprintf(&b, "[T%d %s", c.Thread, c.Call)
		switch c.Call.K {
		case "put", "batch":
			fmt.Fprintf(&b, "=%s", c.Val)
		case "get":
			if c.Found {
				fmt.Fprintf(&b, "->%s", c.Val)
			} else {
				b.WriteString("->notfound")
			}
		}
		fmt.Fprintf(&b, " @%d..%d] ", c.T0, c.T1)
	}
	if ex.Live != nil {
		if v, ok := ex.Live.KV[key]; ok {
			fmt.Fprintf(&b, "final live: %s", v)
		} else {
			b.WriteString("final live: notfound")
		}
	}
	return b.String()
}

type schedReplay struct {
	Engine   string   `json:"engine"`
	Prop     string   `json:"property"`
	Scenario Scenario `json:"scenario"`
	Schedule []int8   `json:"schedule"`
	Text     string   `json:"text"`
}

func describeSchedule(ex *ExecResult) string {
	if ex.Sched == nil {
		return ""
	}
	var b strings.Builder
	pre := 0
	for i := 0; i < ex.Sched.N; i++ {
		if ex.Sched.Runners[i] >= 0 && ex.Sched.Choices[i] != 0 {
			pre++
		}
	}
	fmt.Fprintf(&b, "%d branching points, %d preemptions, choices %v", ex.Sched.N, pre, ex.Sched.Choices)
	return b.String()
}

// judgeC08 applies the C08 oracles to one execution.
func judgeC08(sc Scenario, ex *ExecResult, initial map[string]string) (clause, detail string) {
	if ex.OpenErr != "" {
		return "", ""
	}
	if ex.Sched.Abort != sched.AbortNone {
		return "", "" // deadlock / livelock: C09's verdict
	}
	for _, p := range ex.Sched.Panics {
		if p != "" {
			return "", "" // C09's verdict
		}
	}
	if ex.RaceN > 0 {
		// (race build) two calls touched the same memory without synchronisation: whatever values this particular
		// execution returned, the calls did not take effect atomically
		rep := raceReport(raceCount() - ex.RaceN)
		return "unsynchronised-access", "the race detector reported conflicting accesses between the calls of this schedule:\n" + truncate(rep, 2500)
	}
	for _, c := range ex.Calls {
		if c.Err != "nil" && (c.Call.K == "put" || c.Call.K == "del" || c.Call.K == "get" || c.Call.K == "batch") {
			return "call-failed", fmt.Sprintf("thread %d: %s returned %s; no sequential execution of these calls makes a valid %s fail, so the history has no linearization", c.Thread, c.Call, c.Err, c.Call.K)
		}
	}
	if d := checkLinearizable(ex, initial); d != "" {
		return "not-linearizable", d
	}
	if ex.Live != nil && ex.Restart != nil {
		if ex.Live.Err != "" {
			return "live-dump-error", ex.Live.Err
		}
		if !dumpEqual(ex.Live, ex.Restart) {
			return "live-differs-from-restart", fmt.Sprintf("after quiescence the live mapping is %s but a restart recovers %s", ex.Live, ex.Restart)
		}
		if ex.Restart2 != nil && !dumpEqual(ex.Restart, ex.Restart2) {
			return "restart-not-stable", fmt.Sprintf("first restart %s, second restart %s", ex.Restart, ex.Restart2)
		}
	}
	return "", ""
}

// scenario enumeration ------------------------------------------------------------------------

func multisets(n, k int) [][]int {
	var out [][]int
	var rec func(start int, cur []int)
	rec = func(start int, cur []int) {
		if len(cur) == k {
			out = append(out, append([]int{}, cur...))
			return
		}
		for i := start; i < n; i++ {
			rec(i, append(cur, i))
		}
	}
	rec(0, nil)
	return out
}

type c08Shape struct {
	name    string
	threads [][]Call
}

func c08Programs() (one [][]Call, two [][]Call) {
	for _, c := range c08Calls {
		one = append(one, []Call{c})
	}
	for _, c1 := range c08Calls {
		for _, c2 := range c08Calls {
			two = append(two, []Call{c1, c2})
		}
	}
	return
}

func hasWrite(ts [][]Call) bool {
	for _, t := range ts {
		for _, c := range t {
			if c.K == "put" || c.K == "del" || c.K == "batch" {
				return true
			}
		}
	}
	return false
}

func c08Shapes(which string) [][][]Call {
	one, two := c08Programs()
	var out [][][]Call
	switch which {
	case "2x1":
		for _, m := range multisets(len(one), 2) {
			out = append(out, [][]Call{one[m[0]], one[m[1]]})
		}
	case "2+1":
		for _, p2 := range two {
			for _, p1 := range one {
				out = append(out, [][]Call{p2, p1})
			}
		}
	case "3x1":
		for _, m := range multisets(len(one), 3) {
			out = append(out, [][]Call{one[m[0]], one[m[1]], one[m[2]]})
		}
	case "2x2":
		for _, m := range multisets(len(two), 2) {
			out = append(out, [][]Call{two[m[0]], two[m[1]]})
		}
	case "3+1":
		for _, c1 := range c08Calls {
			for _, c2 := range c08Calls {
				for _, c3 := range c08Calls {
					for _, p1 := range one {
						out = append(out, [][]Call{{c1, c2, c3}, p1})
					}
				}
			}
		}
	case "2+1+1":
		for _, p2 := range two {
			for _, m := range multisets(len(one), 2) {
				out = append(out, [][]Call{p2, one[m[0]], one[m[1]]})
			}
		}
	case "batch+1":
		for _, p1 := range one {
			out = append(out, [][]Call{{{K: "batch", Key: "a"}}, p1})
		}
	case "batch+2":
		for _, p2 := range two {
			out = append(out, [][]Call{{{K: "batch", Key: "a"}}, p2})
		}
	case "merge+1":
		for _, p1 := range one {
			out = append(out, [][]Call{{{K: "merge"}}, p1})
		}
	case "merge+2":
		for _, p2 := range two {
			out = append(out, [][]Call{{{K: "merge"}}, p2})
		}
	case "merge+1+1":
		for _, m := range multisets(len(one), 2) {
			out = append(out, [][]Call{{{K: "merge"}}, one[m[0]], one[m[1]]})
		}
	}
	var f [][][]Call
	for _, ts := range out {
		if hasWrite(ts) {
			f = append(f, ts)
		}
	}
	return f
}

var c08Inits = map[string][]Op{
	"empty":     {},
	"a-active":  {{K: "put", Key: "a", VC: "S"}},
	"a-rotated": {{K: "put", Key: "a", VC: "L"}, {K: "put", Key: "b", VC: "L"}},
}

// mergeInits: 2-4 records in rotated files so that the merge has something to scan.
var c08MergeInits = map[string][]Op{
	"ab-rotated":     {{K: "put", Key: "a", VC: "L"}, {K: "put", Key: "b", VC: "S"}, {K: "put", Key: "a", VC: "L"}},
	"garbage+delete": {{K: "put", Key: "a", VC: "S"}, {K: "put", Key: "b", VC: "S"}, {K: "put", Key: "a", VC: "S"}, {K: "del", Key: "b"}},
}

func modelAfter(init []Op, cfg Cfg) map[string]string {
	// run the initial history on a throw-away world to learn the initial mapping
	beginExecution()
	w := NewWorld(cfg, keysAB)
	defer w.Destroy()
	if err := w.Open(); err != nil {
		return nil
	}
	for _, op := range init {
		w.Apply(op)
	}
	return copyModel(w.Model)
}

type c08Level struct {
	shape string
	pb    int
	inits map[string][]Op
	cfgs  []Cfg
}

func c08Tasks(tier string) []Task {
	hm := defaultCfg
	bt := defaultCfg
	bt.Index = 1
	sl := defaultCfg
	sl.Index = 2
	hm1 := defaultCfg
	hm1.Shards = 1
	rot := defaultCfg
	rot.FileSize = 64 // every record rotates the active file: writers racing a Merge roll the file over during the scan
	al := defaultCfg
	al.Sync = 1 // Always: every Put / Delete flushes inside its critical section
	thr := defaultCfg
	thr.Sync, thr.BPS = 2, 20 // Threshold: every second small write flushes
	var levels []c08Level
	if tier == "quick" {
		levels = []c08Level{
			{"2x1", -1, c08Inits, []Cfg{al, thr}},
			{"2+1", -1, c08Inits, []Cfg{al}},
			{"2x2", 3, c08Inits, []Cfg{al}},
			{"2x1", -1, c08Inits, []Cfg{hm, bt, sl, hm1}},
			{"2+1", -1, c08Inits, []Cfg{hm, bt}},
			{"3x1", -1, c08Inits, []Cfg{hm, bt}},
			{"2x2", 3, c08Inits, []Cfg{hm, bt}},
			{"batch+1", -1, c08Inits, []Cfg{hm, bt}},
			{"batch+2", 3, c08Inits, []Cfg{hm}},
			{"2+1+1", 2, c08Inits, []Cfg{hm}},
			{"merge+1", -1, c08MergeInits, []Cfg{hm, bt, sl, rot}},
			{"merge+2", 3, c08MergeInits, []Cfg{hm, bt, rot}},
			{"merge+1+1", 2, c08MergeInits, []Cfg{hm, rot}},
		}
	} else {
		levels = []c08Level{
			{"2x1", -1, c08Inits, []Cfg{al, thr}},
			{"2+1", -1, c08Inits, []Cfg{al, thr}},
			{"2x2", -1, c08Inits, []Cfg{al}},
			{"3x1", -1, c08Inits, []Cfg{al}},
			{"2x1", -1, c08Inits, []Cfg{hm, bt, sl, hm1}},
			{"2+1", -1, c08Inits, []Cfg{hm, bt, sl, hm1}},
			{"3x1", -1, c08Inits, []Cfg{hm, bt, sl, hm1}},
			{"2x2", -1, c08Inits, []Cfg{hm, bt, sl}},
			{"3+1", 4, c08Inits, []Cfg{hm, bt}},
			{"2+1+1", 4, c08Inits, []Cfg{hm, bt}},
			{"batch+1", -1, c08Inits, []Cfg{hm, bt, sl}},
			{"batch+2", -1, c08Inits, []Cfg{hm, bt}},
			{"merge+1", -1, c08MergeInits, []Cfg{hm, bt, sl, rot}},
			{"merge+2", -1, c08MergeInits, []Cfg{hm, bt, sl, rot}},
			{"merge+1+1", 4, c08MergeInits, []Cfg{hm, bt, rot}},
		}
	}
	// long keys: the hint file written by the racing Merge spans block boundaries; B-tree / skip list keep key slices
	longInit := map[string][]Op{"long-keys": {{K: "put", Key: c18LongKeys[0], VC: "S"}, {K: "put", Key: c18LongKeys[1], VC: "S"}, {K: "put", Key: "a", VC: "S"}}}
	var lcfgs []Cfg
	for _, c := range longKeyCfgs() {
		lcfgs = append(lcfgs, c)
	}
	levels = append(levels, c08Level{"merge+1", -1, longInit, lcfgs})
	var tasks []Task
	for _, lv := range levels {
		for _, cfg := range lv.cfgs {
			for _, iname := range sortedKeys(lv.inits) {
				for si, ts := range c08Shapes(lv.shape) {
					lv, cfg, iname, ts, si := lv, cfg, iname, ts, si
					sc := Scenario{Cfg: cfg, Init: lv.inits[iname], Threads: ts}
					pbName := fmt.Sprint(lv.pb)
					if lv.pb < 0 {
						pbName = "unbounded"
					}
					tasks = append(tasks, Task{Level: fmt.Sprintf("%s-pb%s", lv.shape, pbName), Name: fmt.Sprintf("%s #%d %s", lv.shape, si, sc), Fn: func(res *TaskResult) {
						c08RunScenario(sc, lv.pb, res)
					}})
				}
			}
		}
	}
	// read-side I/O calls as schedule points (Standard I/O: all readers of a data file share ONE descriptor): two Gets,
	// or a Get and the Merge scan, interleaved between any two read-side calls
	one := defaultCfg
	one.FileSize = 1000 // a and b live in the same file
	rp := map[string][]Op{
		"same-file":    {{K: "put", Key: "a", VC: "S"}, {K: "put", Key: "b", VC: "L"}},
		"older+active": {{K: "put", Key: "a", VC: "L"}, {K: "put", Key: "b", VC: "L"}, {K: "put", Key: "a", VC: "S"}},
	}
	for _, cfg := range []Cfg{one, hm} {
		for _, iname := range sortedKeys(rp) {
			for si, ts := range [][][]Call{
				{{{K: "get", Key: "a"}}, {{K: "get", Key: "b"}}},
				{{{K: "get", Key: "a"}}, {{K: "get", Key: "a"}}},
				{{{K: "get", Key: "a"}}, {{K: "get", Key: "b"}}, {{K: "put", Key: "a"}}},
				{{{K: "merge"}}, {{K: "get", Key: "a"}}},
				{{{K: "merge"}}, {{K: "get", Key: "b"}}, {{K: "get", Key: "a"}}},
			} {
				sc := Scenario{Cfg: cfg, Init: rp[iname], Threads: ts}
				pb := -1
				if len(ts) == 3 {
					pb = 2
				}
				tasks = append(tasks, Task{Level: "read-points", Name: fmt.Sprintf("read-points #%d %s", si, sc), Fn: func(res *TaskResult) {
					vos.ReadPoints = true
					defer func() { vos.ReadPoints = false }()
					c08RunScenario(sc, pb, res)
				}})
			}
		}
	}
	return tasks
}

func c08RunScenario(sc Scenario, pb int, res *TaskResult) { schedLinRun("C08", sc, pb, res) }

// schedLinRun explores one scenario and applies the linearizability / restart-agreement oracles, reporting under prop.
func schedLinRun(prop string, sc Scenario, pb int, res *TaskResult) {
	initial := modelAfter(sc.Init, sc.Cfg)
	outcomes := map[uint64]bool{}
	n, complete := exploreSchedules(func(prefix []int8) *ExecResult {
		announce(func() string { return fmt.Sprintf("%s schedule %v", sc, prefix) })
		return runScenario(sc, prefix, true)
	}, pb, 200000, func(ex *ExecResult, prefix []int8) bool {
		res.Execs++
		if ex.Sched != nil {
			res.Transitions += ex.Sched.Points
		}
		if ex.OpenErr != "" {
			res.count("setup_failed", 1)
			return true
		}
		if ex.Sched.Abort == sched.AbortDiv {
			res.Err = fmt.Sprintf("replay divergence in %s prefix %v", sc, prefix)
			return false
		}
		res.Evals++
		c, d := judgeC08(sc, ex, initial)
		if c != "" {
			// the same schedule must fail again
			ex2 := runScenario(sc, ex.Sched.Choices, true)
			// (the race detector reports each pair of code locations once per process: not re-observable)
			if c2, _ := judgeC08(sc, ex2, initial); c2 != c && c != "unsynchronised-access" {
				res.Err = fmt.Sprintf("non-reproducible %s in %s schedule %v", c, sc, ex.Sched.Choices)
				return false
			}
			res.Violations = append(res.Violations, Violation{Prop: prop, Clause: c, Sig: c + ":" + shapeOf(sc),
				Detail: fmt.Sprintf("scenario %s\nschedule: %s\n%s", sc, describeSchedule(ex), d),
				Replay: mustJSON(schedReplay{Engine: "sched", Prop: prop, Scenario: sc, Schedule: append([]int8{}, ex.Sched.Choices...), Text: sc.String()})})
			return false
		}
		// outcome = rendered history + final mapping
		var hs []string
		for _, cr := range ex.Calls {
			hs = append(hs, fmt.Sprintf("%d%s%s%v", cr.Thread, cr.Call, cr.Val, cr.Found))
		}
		if ex.Live != nil {
			hs = append(hs, ex.Live.String())
		}
		h := hash64(hs...)
		if !outcomes[h] {
			outcomes[h] = true
			res.Outcomes = append(res.Outcomes, hash64(sc.String(), fmt.Sprint(h)))
			res.States = append(res.States, hash64(sc.String(), fmt.Sprint(h)))
		}
		return true
	})
	_ = n
	if !complete {
		res.Partial = true
	}
	if len(outcomes) > 1 {
		res.Nontrivial++
	}
	res.count("max:schedules_per_scenario", int64(n))
	if len(res.Samples) == 0 {
		res.Samples = append(res.Samples, fmt.Sprintf("%s: %d schedules, %d distinct outcomes", sc, n, len(outcomes)))
	}
}

func shapeOf(sc Scenario) string {
	var s []string
	for _, t := range sc.Threads {
		var c []string
		for _, x := range t {
			c = append(c, x.K)
		}
		s = append(s, strings.Join(c, "+"))
	}
	sort.Strings(s)
	return strings.Join(s, "|")
}

func init() {
	register(&Check{
		Prop:   "C08",
		Engine: "sched",
		Procs:  1,
		Rule:   "every scenario of the shape grammar (all multisets of thread programs of 1-2 calls over {Put(a) Put(b) Delete(a) Get(a) Get(b)}, optionally a Merge thread, x initial states x index types) is explored under the controlled scheduler: ALL schedules up to the preemption bound at lock/atomic granularity; per schedule the call/return history is checked for per-key linearizability (porcupine, register model, final live reads appended) and the quiescent live mapping is compared with the mapping after one and two restarts. states = distinct (scenario, outcome) pairs; non-trivial = scenarios whose schedules produced more than one outcome",
		Assumptions: []string{
			"schedule points: thread start, every Lock/RLock (two points for a contended write lock), every atomic; sound for data-race-free executions (the race premise is checked by C09 inside the same kind of enumeration)",
			"2-3 client threads (+ Merge), 1-2 calls each; preemption bounds as listed per level",
			"Merge's scan order is ascending in these scenarios (<= 2 rotated files)",
		},
		Tasks: c08Tasks,
		Bounds: func(tier string) map[string]any {
			if tier == "quick" {
				return map[string]any{"shapes": "2x1 2+1 3x1 batch+1 merge+1 unbounded; 2x2 batch+2 merge+2 at PB<=3; 2+1+1 merge+1+1 at PB<=2", "index": "hashmap (16 and 1 shards), btree, skiplist"}
			}
			return map[string]any{"shapes": "2x1 2+1 3x1 2x2 batch+1 batch+2 merge+1 merge+2 unbounded; 3+1 2+1+1 merge+1+1 at PB<=4", "index": "hashmap, btree, skiplist, 1 and 16 shards"}
		},
		Replay: func(raw json.RawMessage) {
			var r schedReplay
			json.Unmarshal(raw, &r)
			initial := modelAfter(r.Scenario.Init, r.Scenario.Cfg)
			ex := runScenario(r.Scenario, r.Schedule, true)
			fmt.Println("scenario:", r.Scenario)
			fmt.Println("schedule:", describeSchedule(ex))
			for _, k := range keysAB {
				fmt.Println("history", k, ":", renderHistory(ex, k))
			}
			if c, d := judgeC08(r.Scenario, ex, initial); c != "" {
				fmt.Printf("VIOLATION clause=%s\n%s\n", c, d)
				os.Exit(1)
			}
			fmt.Println("no violation on this tree")
		},
	})
}

#!/bin/bash
# ./run.sh <Cxx> <quick|thorough>      run one property check against $VERIF_REPO (default /repo)
# ./run.sh replay <file>               re-execute a replay artefact
# exit 0 = held on everything explored, 1 = VIOLATION line printed, 2 = harness error
set -u
export GOFLAGS=-mod=mod GOPROXY=off GOSUMDB=off GOTOOLCHAIN=local
VERIF="$(cd "$(dirname "$0")" && pwd)"
REPO="${VERIF_REPO:-/repo}"
BASE="${VERIF_SCRATCH:-/dev/shm}"
[ -d "$BASE" ] && [ -w "$BASE" ] || BASE="${TMPDIR:-/tmp}"
SCR="$(mktemp -d "$BASE/verif-run.XXXXXX")" || exit 2
trap 'rm -rf "$SCR"' EXIT
export VERIF_SCRATCH="$SCR" VERIF_DIR="$VERIF"

mode="${1:-}"; arg="${2:-quick}"
[ -n "$mode" ] || { echo "usage: $0 <Cxx> <quick|thorough> | replay <file>" >&2; exit 2; }

race=""
case "$mode" in C08|C09) race="-race";; esac
if [ "$mode" = replay ] && grep -qE '"property": "C0[89]"' "$arg" 2>/dev/null; then race="-race"; fi
[ "${VERIF_RACE:-}" = 1 ] && race="-race"

build() {
  mkdir -p "$SCR/b"
  if [ ! -x "$VERIF/.bin/instrument" ]; then
    (cd "$VERIF/tools/instrument" && go build -o "$VERIF/.bin/instrument" .) || return 2
  fi
  "$VERIF/.bin/instrument" -repo "$REPO" -rt "$VERIF/rt" -virt "$VERIF/overlay" -out "$SCR/b" || return 2
  sed "s#=> /repo#=> $REPO#" "$VERIF/harness/go.mod" > "$SCR/b/go.mod"
  cp "$VERIF/harness/go.sum" "$SCR/b/go.sum"
  (cd "$VERIF/harness" && go build $race -tags verif -modfile "$SCR/b/go.mod" -overlay "$SCR/b/overlay.json" -o "$SCR/b/vcheck" .) > "$SCR/b/build.log" 2>&1
  if [ $? -ne 0 ]; then
    echo "HARNESS-ERROR: instrumented build failed" >&2
    cat "$SCR/b/build.log" >&2
    if (cd "$REPO" && go build ./... ) >/dev/null 2>&1; then
      echo "HARNESS-ERROR: the plain build of $REPO succeeds: this is a limitation of the shims, not a verdict" >&2
    fi
    return 2
  fi
}

build || exit 2
if [ "$mode" = replay ]; then
  [ -n "$race" ] && export GORACE="log_path=$SCR/race halt_on_error=0 history_size=2 exitcode=0"
  "$SCR/b/vcheck" -replay "$arg"; exit $?
fi
if [ "$mode" = trace ]; then
  shift; "$SCR/b/vcheck" "$@"; exit $?
fi
if [ -n "$race" ]; then
  export GORACE="log_path=$SCR/race halt_on_error=0 history_size=2 exitcode=0"
fi
"$SCR/b/vcheck" -prop "$mode" -tier "$arg"
exit $?

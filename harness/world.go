package main

import (
	"bytes"
	"errors"
	"fmt"
	"os"
	"path/filepath"
	"runtime/debug"
	"sort"
	"strings"
	"sync"
	"time"

	kv "github.com/XiXi-2024/xixi-kv"
	"github.com/XiXi-2024/xixi-kv/index"
	"github.com/XiXi-2024/xixi-kv/verifrt/iorec"
	"github.com/XiXi-2024/xixi-kv/verifrt/sched"
	"github.com/XiXi-2024/xixi-kv/verifrt/vmmap"
	"github.com/XiXi-2024/xixi-kv/verifrt/vsync"
	"github.com/XiXi-2024/xixi-kv/verifrt/vtime"
	"github.com/bwmarrin/snowflake"
)

func stack() string { return string(debug.Stack()) }

var (
	scratchBase string
	scratchOnce sync.Once
)

// scratchRoot is the tmpfs directory under which this process creates its data directories.
func scratchRoot() string {
	scratchOnce.Do(func() {
		base := os.Getenv("VERIF_SCRATCH")
		if base == "" {
			base = "/dev/shm"
		}
		scratchBase = filepath.Join(base, fmt.Sprintf("vw-%d", os.Getpid()))
		os.MkdirAll(scratchBase, 0o755)
	})
	return scratchBase
}

func cleanupScratch() {
	os.RemoveAll(scratchRoot())
}

func (c Cfg) options(dir string) kv.Options {
	return kv.Options{
		DirPath:            dir,
		DataFileSize:       c.FileSize,
		SyncStrategy:       kv.SyncStrategy(c.Sync),
		BytesPerSync:       c.BPS,
		IndexType:          index.IndexType(c.Index),
		FileIOType:         c.IO,
		ShardNum:           c.Shards,
		DataFileMergeRatio: 0,
	}
}

// World is one database instance under exploration together with its reference model.
type World struct {
	Cfg  Cfg
	Root string // private scratch directory (removed by Destroy)
	Dir  string // data directory
	// DirSpell: how the caller spells the directory in Options.DirPath: 0 clean, 1 trailing separator, 2 trailing
	// "/.", 3 a "/./" in the middle, 4 a symbolic link to it (all name the same directory)
	DirSpell  int
	lastValue []byte // the value of the last plain put (also when it failed)
	// BackgroundMerge: Options.EnableBackgroundMerge (the engine's own timer-driven Merge goroutine)
	BackgroundMerge bool
	DB              *kv.DB
	Model           map[string]string
	Keys            []string // key universe (observed on every step)
	Step            int
	Dead            bool // a panic happened; the instance is abandoned
	Errs            int  // mutation calls that failed unexpectedly (modelled as no effect)
	Cnt             map[string]int64
	Hist            map[string]map[string]bool // every value ever written per key (C12 etc.)
	seqDir          int

	// Adversarial caller (C14/C15): one key buffer and one value buffer are reused for every call and
	// poisoned after each return; Alias records the first canary failure.
	Adversarial bool
	kbuf, vbuf  []byte
	Alias       string
	kept        []keptSlice // slices returned by Get / ListKeys with a private copy taken at return time
}

type keptSlice struct {
	what string
	got  []byte
	copy []byte
}

var worldSeq int

func NewWorld(cfg Cfg, keys []string) *World {
	worldSeq++
	vsync.PoolFIFO = cfg.Pool == 1
	root := filepath.Join(scratchRoot(), fmt.Sprintf("w%d", worldSeq))
	os.RemoveAll(root)
	os.MkdirAll(root, 0o755)
	w := &World{Cfg: cfg, Root: root, Dir: filepath.Join(root, "db"), Model: map[string]string{}, Keys: keys,
		Cnt: map[string]int64{}, Hist: map[string]map[string]bool{}}
	return w
}

// spelledDir is Options.DirPath as this caller spells it.
func (w *World) spelledDir() string {
	sep := string(filepath.Separator)
	switch w.DirSpell {
	case 1:
		return w.Dir + sep
	case 2:
		return w.Dir + sep + "."
	case 3:
		return filepath.Dir(w.Dir) + sep + "." + sep + filepath.Base(w.Dir)
	case 4: // through a symbolic link next to the directory
		link := filepath.Join(filepath.Dir(w.Dir), "dblink")
		if st, err := os.Lstat(link); err != nil || st.Mode()&os.ModeSymlink == 0 {
			os.RemoveAll(link) // (a materialised crash image holds whatever the snapshot made of the link)
			os.MkdirAll(w.Dir, 0o755)
			os.Symlink(w.Dir, link)
		}
		return link
	}
	return w.Dir
}

// Destroy closes (best effort) and removes everything.
func (w *World) Destroy() {
	if w.DB != nil && !w.Dead {
		w.guard(func() error { return w.DB.Close() })
	}
	w.DB = nil
	os.RemoveAll(w.Root)
}

type callPanic struct {
	val   any
	stack string
}

func (p *callPanic) Error() string { return fmt.Sprintf("panic: %v", p.val) }

// guard runs f, converting a panic into a *callPanic error and marking the world dead.
func (w *World) guard(f func() error) (err error) {
	defer func() {
		if r := recover(); r != nil {
			w.Dead = true
			err = &callPanic{val: r, stack: trimStack(stack())}
		}
	}()
	return f()
}

func trimStack(s string) string {
	lines := strings.Split(s, "\n")
	var keep []string
	for i := 0; i < len(lines); i++ {
		l := lines[i]
		if strings.Contains(l, "xixi-kv") || strings.Contains(l, "/repo/") || strings.Contains(l, "/src/") {
			keep = append(keep, strings.TrimSpace(l))
		}
		if len(keep) >= 12 {
			break
		}
	}
	return strings.Join(keep, " | ")
}

func beginExecution() {
	progressTick.Add(1)
	// the clock is harness-owned in every engine: datatype versions/expiry and (through the rewritten
	// snowflake import) batch ids are a deterministic function of the execution
	vtime.Owned = true
	vtime.Reset()
	snowflake.VerifNow = vtime.Now
	vsync.NewGeneration()
	iorec.Reset()
	sched.SetMode(sched.ModeSeq)
	leakedMappings += vmmap.ReleaseAll()
}

// mappings abandoned by earlier executions of this process (released at the start of the next one)
var leakedMappings int

// Open opens the database with the world's configuration (or another one).
func (w *World) Open() error { return w.OpenWith(w.Cfg) }

func (w *World) OpenWith(c Cfg) error {
	vtime.Advance(2 * time.Millisecond) // a (re)start takes at least 2 ms of wall-clock time (stated assumption)
	var db *kv.DB
	err := w.guard(func() error {
		var e error
		o := c.options(w.spelledDir())
		o.EnableBackgroundMerge = w.BackgroundMerge
		db, e = kv.Open(o)
		return e
	})
	if err == nil {
		w.DB = db
	}
	return err
}

func (w *World) Close() error {
	db := w.DB
	w.DB = nil
	return w.guard(func() error { return db.Close() })
}

// value builds the deterministic value of the current step for a value class.
func (w *World) value(key, vc string, arg int) []byte {
	fill := func(n int) []byte {
		b := make([]byte, n)
		for i := range b {
			b[i] = byte('A' + (w.Step*7+i*3+int(key[0]))%53)
		}
		if n >= 2 {
			b[0] = byte('0' + w.Step%10)
			b[1] = key[0]
		}
		return b
	}
	switch vc {
	case "S":
		return fill(3)
	case "E":
		return []byte{}
	case "Z": // ends in zero bytes (a file whose last record is this one ends in zeros)
		return append(fill(3), 0, 0, 0, 0, 0)
	case "S2": // constant small value (identical bytes on every use)
		return []byte("same")
	case "F": // fixed length (arg bytes), independent of the configuration
		return fill(arg)
	case "L": // large relative to the file: two of them never fit in one file
		return fill(int(w.Cfg.FileSize) * 3 / 10)
	case "G": // 40% of the file: one fits next to a sealing-record reserve, two do not
		return fill(int(w.Cfg.FileSize) * 40 / 100)
	case "H": // 45% of the file: two of them exceed the limit
		return fill(int(w.Cfg.FileSize) * 45 / 100)
	case "X": // alone exceeds the limit
		return fill(int(w.Cfg.FileSize) + 10)
	case "M": // spans three blocks
		return fill(70000)
	case "B": // record ends arg bytes before (arg>0) / after (arg<0) the next block boundary
		_, size, _ := w.DB.VerifFiles()
		off := int(size % 32768)
		// estimated framing overhead: chunk header 7 + type 1 + varints (1 + 3) + batch id 1 + key
		over := 7 + 1 + 1 + 3 + 1 + len(key)
		n := 32768 - arg - off - over
		n = ((n % 32768) + 32768) % 32768
		return fill(n)
	}
	panic("unknown value class " + vc)
}

func (w *World) remember(key string, val []byte) {
	m := w.Hist[key]
	if m == nil {
		m = map[string]bool{}
		w.Hist[key] = m
	}
	m[string(val)] = true
}

// Viol builds a violation for this world.
func viol(prop, clause, sig, detail string) *Violation {
	return &Violation{Prop: prop, Clause: clause, Sig: sig, Detail: detail}
}

func errClass(err error) string {
	if err == nil {
		return "nil"
	}
	var cp *callPanic
	if errors.As(err, &cp) {
		return "panic"
	}
	switch {
	case errors.Is(err, kv.ErrKeyNotFound):
		return "ErrKeyNotFound"
	case errors.Is(err, kv.ErrKeyIsEmpty):
		return "ErrKeyIsEmpty"
	case errors.Is(err, kv.ErrIndexUpdateFailed):
		return "ErrIndexUpdateFailed"
	case errors.Is(err, kv.ErrDataFileNotFound):
		return "ErrDataFileNotFound"
	case errors.Is(err, kv.ErrDataDirectoryCorrupted):
		return "ErrDataDirectoryCorrupted"
	case errors.Is(err, kv.ErrBatchCommitted):
		return "ErrBatchCommitted"
	case errors.Is(err, kv.ErrMergeIsProgress):
		return "ErrMergeIsProgress"
	case errors.Is(err, kv.ErrDatabaseIsUsing):
		return "ErrDatabaseIsUsing"
	case errors.Is(err, kv.ErrMergeRatioUnreached):
		return "ErrMergeRatioUnreached"
	case errors.Is(err, kv.ErrNoEnoughSpaceForMerge):
		return "ErrNoEnoughSpaceForMerge"
	}
	s := err.Error()
	if strings.Contains(s, "invalid crc") {
		return "ErrInvalidCRC"
	}
	if s == "EOF" {
		return "EOF"
	}
	if strings.Contains(s, "closed") {
		return "ErrClosed"
	}
	if len(s) > 60 {
		s = s[:60]
	}
	return "err:" + s
}

func panicDetail(err error) string {
	var cp *callPanic
	if errors.As(err, &cp) {
		return fmt.Sprintf("panic: %v @ %s", cp.val, cp.stack)
	}
	return fmt.Sprint(err)
}

// Dump is the externally visible mapping of a database.
type Dump struct {
	KV     map[string]string
	Order  []string // ListKeys order
	KeyNum int
	Err    string // first error / inconsistency met while dumping ("" = none)
}

func (d *Dump) String() string {
	var b strings.Builder
	b.WriteString("{")
	for i, k := range sortedKeys(d.KV) {
		if i > 0 {
			b.WriteString(" ")
		}
		fmt.Fprintf(&b, "%s=%s", k, short(d.KV[k]))
	}
	fmt.Fprintf(&b, "} keynum=%d", d.KeyNum)
	if d.Err != "" {
		b.WriteString(" ERR=" + d.Err)
	}
	return b.String()
}

func short(v string) string {
	if len(v) <= 12 {
		return fmt.Sprintf("%q", v)
	}
	return fmt.Sprintf("%q…(%d bytes,h=%08x)", v[:6], len(v), uint32(hash64(v)))
}

// DumpDB reads the whole mapping through the public API: ListKeys + Get of every key + Stat.KeyNum.
func (w *World) DumpDB() *Dump {
	d := &Dump{KV: map[string]string{}}
	err := w.guard(func() error {
		keys := w.DB.ListKeys()
		for _, k := range keys {
			if k == nil {
				if d.Err == "" {
					d.Err = "ListKeys returned a nil key"
				}
				continue
			}
			d.Order = append(d.Order, string(k))
			v, err := w.DB.Get(k)
			if err != nil {
				if d.Err == "" {
					d.Err = fmt.Sprintf("Get(%q) of a listed key: %s", k, errClass(err))
				}
				continue
			}
			d.KV[string(k)] = string(v)
		}
		d.KeyNum = w.DB.Stat().KeyNum
		return nil
	})
	if err != nil {
		d.Err = panicDetail(err)
	}
	return d
}

func sameMap(a, b map[string]string) bool {
	if len(a) != len(b) {
		return false
	}
	for k, v := range a {
		if w, ok := b[k]; !ok || w != v {
			return false
		}
	}
	return true
}

func modelString(m map[string]string) string {
	var b strings.Builder
	b.WriteString("{")
	for i, k := range sortedKeys(m) {
		if i > 0 {
			b.WriteString(" ")
		}
		fmt.Fprintf(&b, "%s=%s", k, short(m[k]))
	}
	b.WriteString("}")
	return b.String()
}

// CheckReads compares every read path of the open database with the model. Returns "" or a
// description of the first difference, plus the clause id.
func (w *World) CheckReads() (clause, detail string) {
	var c, d string
	err := w.guard(func() error {
		// point reads of the whole universe plus a never-written key
		for _, k := range append(append([]string{}, w.Keys...), "zz-never") {
			v, err := w.DB.Get([]byte(k))
			if w.Adversarial && err == nil {
				w.Keep("Get("+k+")", v)
			}
			want, ok := w.Model[k]
			switch {
			case ok && err != nil:
				c, d = "get-missing", fmt.Sprintf("Get(%q) = %s, model has %s", k, errClass(err), short(want))
				return nil
			case ok && string(v) != want:
				c, d = "get-wrong-value", fmt.Sprintf("Get(%q) = %s, model has %s", k, short(string(v)), short(want))
				return nil
			case !ok && err == nil:
				c, d = "get-phantom", fmt.Sprintf("Get(%q) = %s, model: not found", k, short(string(v)))
				return nil
			case !ok && !errors.Is(err, kv.ErrKeyNotFound):
				c, d = "get-error", fmt.Sprintf("Get(%q) = %s, model: not found", k, errClass(err))
				return nil
			}
		}
		if _, err := w.DB.Get(nil); !errors.Is(err, kv.ErrKeyIsEmpty) {
			c, d = "get-empty-key", fmt.Sprintf("Get(nil) = %s, want ErrKeyIsEmpty", errClass(err))
			return nil
		}
		want := sortedKeys(w.Model)
		// ListKeys
		var got []string
		for _, k := range w.DB.ListKeys() {
			if k == nil {
				c, d = "listkeys-nil", "ListKeys returned a nil key"
				return nil
			}
			got = append(got, string(k))
			if w.Adversarial {
				// the caller owns what ListKeys hands out: it scribbles over every returned key
				for i := range k {
					k[i] ^= 0xA5
				}
			}
		}
		if !equalStrings(got, want) {
			c, d = "listkeys", fmt.Sprintf("ListKeys = %q, model %q", got, want)
			return nil
		}
		// Fold
		got = got[:0]
		var fv []string
		ferr := w.DB.Fold(func(k, v []byte) bool {
			got = append(got, string(k))
			fv = append(fv, string(v))
			if w.Adversarial { // ... and over the key and value a Fold callback is handed
				for i := range k {
					k[i] ^= 0xA5
				}
				for i := range v {
					v[i] ^= 0xA5
				}
			}
			return true
		})
		if ferr != nil {
			c, d = "fold-error", "Fold: "+errClass(ferr)
			return nil
		}
		if !equalStrings(got, want) {
			c, d = "fold-keys", fmt.Sprintf("Fold keys = %q, model %q", got, want)
			return nil
		}
		for i, k := range got {
			if fv[i] != w.Model[k] {
				c, d = "fold-value", fmt.Sprintf("Fold value of %q = %s, model %s", k, short(fv[i]), short(w.Model[k]))
				return nil
			}
		}
		// iterators, both directions, with values
		for _, rev := range []bool{false, true} {
			it := w.DB.NewIterator(kv.IteratorOptions{Reverse: rev})
			got = got[:0]
			for it.Rewind(); it.Valid(); it.Next() {
				kb := it.Key()
				k := string(kb)
				if w.Adversarial { // ... and over the key an iterator returns
					for i := range kb {
						kb[i] ^= 0xA5
					}
				}
				v, err := it.Value()
				if err != nil || string(v) != w.Model[k] {
					c, d = "iter-value", fmt.Sprintf("iterator(reverse=%v) value of %q = %s/%s, model %s", rev, k, short(string(v)), errClass(err), short(w.Model[k]))
					it.Close()
					return nil
				}
				got = append(got, k)
			}
			it.Close()
			exp := want
			if rev {
				exp = append([]string{}, want...)
				sort.Sort(sort.Reverse(sort.StringSlice(exp)))
			}
			if !equalStrings(got, exp) {
				c, d = "iter-keys", fmt.Sprintf("iterator(reverse=%v) keys = %q, model %q", rev, got, exp)
				return nil
			}
		}
		if n := w.DB.Stat().KeyNum; n != len(w.Model) {
			c, d = "stat-keynum", fmt.Sprintf("Stat.KeyNum = %d, model %d", n, len(w.Model))
			return nil
		}
		return nil
	})
	if err != nil {
		return "panic", panicDetail(err)
	}
	return c, d
}

func equalStrings(a, b []string) bool {
	if len(a) != len(b) {
		return false
	}
	for i := range a {
		if a[i] != b[i] {
			return false
		}
	}
	return true
}

// StateHash is the abstract state: model mapping + directory listing with sizes.
func (w *World) StateHash() uint64 {
	var b bytes.Buffer
	b.WriteString(modelString(w.Model))
	for _, dir := range []string{w.Dir, w.Dir + "-merge"} {
		ents, _ := os.ReadDir(dir)
		for _, e := range ents {
			if st, err := e.Info(); err == nil {
				sz := st.Size()
				if w.Cfg.IO == 1 && sz >= 512<<20 {
					sz = -1
				}
				fmt.Fprintf(&b, "|%s:%d", e.Name(), sz)
			}
		}
		b.WriteString("#")
	}
	return hash64(b.String())
}

// ApplyResult describes what one symbolic operation did.
type ApplyResult struct {
	Err    error  // error (or *callPanic) returned by the main call of the operation
	Clause string // non-empty: the operation itself violated an API-level expectation
	Detail string
	Extra  string // batch: what Batch.Get returned for every universe key after every staging call
}

const poisonByte = 0xEE

// advArgs copies key and value into the caller's reused buffers (adversarial mode).
func (w *World) advArgs(key string, val []byte) ([]byte, []byte) {
	if !w.Adversarial {
		return []byte(key), val
	}
	if w.kbuf == nil {
		w.kbuf = make([]byte, 16)
		w.vbuf = make([]byte, 1<<17)
		w.poison()
	}
	w.checkCanary("before reuse")
	if len(val) > cap(w.vbuf) {
		w.vbuf = make([]byte, len(val)*2)
		w.poison()
	}
	if len(key) > cap(w.kbuf) {
		w.kbuf = make([]byte, len(key)+16)
		w.poison()
	}
	k := w.kbuf[:len(key)]
	copy(k, key)
	v := w.vbuf[:len(val)]
	copy(v, val)
	return k, v
}

// advDone is called after a call returned: the buffers must still hold what the caller put there
// (the database never writes into them), then the caller scribbles over them.
func (w *World) advDone(key string, val []byte, what string) {
	if !w.Adversarial {
		return
	}
	if string(w.kbuf[:len(key)]) != key && w.Alias == "" {
		w.Alias = fmt.Sprintf("%s modified the caller's key buffer: %q -> %q", what, key, w.kbuf[:len(key)])
	}
	if val != nil && string(w.vbuf[:len(val)]) != string(val) && w.Alias == "" {
		w.Alias = fmt.Sprintf("%s modified the caller's value buffer", what)
	}
	for _, b := range w.kbuf[len(key):] {
		if b != poisonByte && w.Alias == "" {
			w.Alias = fmt.Sprintf("%s wrote beyond the key slice into the caller's buffer", what)
		}
	}
	w.tailCheck(len(val), what)
	w.poison()
}

func (w *World) tailCheck(from int, what string) {
	for i := from; i < len(w.vbuf); i++ {
		if w.vbuf[i] != poisonByte {
			if w.Alias == "" {
				w.Alias = fmt.Sprintf("%s: the caller's value buffer was written at offset %d (beyond the %d bytes passed in)", what, i, from)
			}
			return
		}
	}
}

func (w *World) poison() {
	for i := range w.kbuf {
		w.kbuf[i] = poisonByte
	}
	for i := range w.vbuf {
		w.vbuf[i] = poisonByte
	}
}

// checkCanary: between calls the poisoned buffers must stay poisoned ("never writes into them later").
func (w *World) checkCanary(when string) {
	if !w.Adversarial || w.kbuf == nil || w.Alias != "" {
		return
	}
	for i, b := range w.kbuf {
		if b != poisonByte {
			w.Alias = fmt.Sprintf("%s: the caller's key buffer was modified at offset %d after the call had returned", when, i)
			return
		}
	}
	for i, b := range w.vbuf {
		if b != poisonByte {
			w.Alias = fmt.Sprintf("%s: the caller's value buffer was modified at offset %d after the call had returned (the database wrote into a retained slice)", when, i)
			return
		}
	}
}

// Keep remembers a slice returned by the database together with a private copy.
func (w *World) Keep(what string, b []byte) {
	if len(w.kept) < 256 {
		w.kept = append(w.kept, keptSlice{what: what, got: b, copy: append([]byte(nil), b...)})
	}
}

// KeptChanged reports the first returned slice whose content changed after it was returned.
func (w *World) KeptChanged() string {
	for _, k := range w.kept {
		if string(k.got) != string(k.copy) {
			return fmt.Sprintf("a slice returned by %s changed afterwards: %q -> %q", k.what, truncate(string(k.copy), 16), truncate(string(k.got), 16))
		}
	}
	return ""
}

// Apply executes one symbolic operation on the real database and on the model.
// Mutations that return an unexpected error are modelled as "no effect" and counted in w.Errs.
func (w *World) Apply(op Op) ApplyResult {
	w.Step++
	switch op.K {
	case "put":
		val := w.value(op.Key, op.VC, op.Arg)
		w.lastValue = val
		k, v := w.advArgs(op.Key, val)
		err := w.guard(func() error { return w.DB.Put(k, v) })
		w.advDone(op.Key, val, "DB.Put")
		if err == nil {
			w.Model[op.Key] = string(val)
			w.remember(op.Key, val)
		} else {
			w.Errs++
		}
		return ApplyResult{Err: err}
	case "del":
		k, _ := w.advArgs(op.Key, nil)
		err := w.guard(func() error { return w.DB.Delete(k) })
		w.advDone(op.Key, nil, "DB.Delete")
		if err == nil {
			delete(w.Model, op.Key)
		} else {
			w.Errs++
		}
		return ApplyResult{Err: err}
	case "gap": // leaves a gap in the data file ids: several files merged into fewer, adopted by a restart
		for _, o := range []Op{{K: "put", Key: "a", VC: "L"}, {K: "put", Key: "a", VC: "L"}, {K: "put", Key: "b", VC: "L"}, {K: "put", Key: "a", VC: "L"}, {K: "merge", Arg: 1}, {K: "restart"}} {
			ar := w.Apply(o)
			if ar.Err != nil || ar.Clause != "" || w.Dead {
				return ar
			}
		}
		return ApplyResult{}
	case "fill": // Arg puts with value class VC, alternating over the key universe (many data files in one step)
		for i := 0; i < op.Arg; i++ {
			ar := w.Apply(Op{K: "put", Key: w.Keys[i%len(w.Keys)], VC: op.VC})
			if ar.Err != nil || w.Dead {
				return ar
			}
		}
		return ApplyResult{}
	case "sync":
		return ApplyResult{Err: w.guard(func() error { return w.DB.Sync() })}
	case "merge":
		sched.MapPerm = op.Arg
		err := w.guard(func() error { return w.DB.Merge() })
		sched.MapPerm = 0
		if err == nil {
			w.Cnt["merge_ok"]++
		}
		return ApplyResult{Err: err}
	case "restart":
		if err := w.Close(); err != nil {
			return ApplyResult{Err: err, Clause: "close-error", Detail: "Close: " + panicDetail(err)}
		}
		err := w.Open()
		if err != nil {
			return ApplyResult{Err: err, Clause: "open-error", Detail: "Open after clean Close: " + panicDetail(err)}
		}
		return ApplyResult{}
	case "restarttear": // restart after a torn tail: the newest data file lost its last Arg bytes between Close and Open
		if err := w.Close(); err != nil {
			return ApplyResult{Err: err, Clause: "close-error", Detail: "Close: " + panicDetail(err)}
		}
		if ents, err := os.ReadDir(w.Dir); err == nil {
			newest := ""
			for _, e := range ents {
				if strings.HasSuffix(e.Name(), ".data") && e.Name() > newest {
					newest = e.Name()
				}
			}
			if newest != "" {
				p := filepath.Join(w.Dir, newest)
				if st, err := os.Stat(p); err == nil && st.Size() >= int64(op.Arg) {
					os.Truncate(p, st.Size()-int64(op.Arg))
				}
			}
		}
		if err := w.Open(); err != nil {
			return ApplyResult{Err: err, Clause: "open-error", Detail: "Open after a torn tail: " + panicDetail(err)}
		}
		return ApplyResult{}
	case "restartslash": // clean restart under the other spelling of the same directory (with / without a trailing separator)
		if err := w.Close(); err != nil {
			return ApplyResult{Err: err, Clause: "close-error", Detail: "Close: " + panicDetail(err)}
		}
		if op.Arg > 0 {
			w.DirSpell = op.Arg // restartslash(k): spelling k
		} else if w.DirSpell == 0 {
			w.DirSpell = 1
		} else {
			w.DirSpell = 0
		}
		if err := w.Open(); err != nil {
			return ApplyResult{Err: err, Clause: "open-error", Detail: fmt.Sprintf("Open(DirPath %q) after clean Close: %s", w.spelledDir(), panicDetail(err))}
		}
		return ApplyResult{}
	case "restartfs": // clean restart that reopens the directory with another DataFileSize (arg)
		if err := w.Close(); err != nil {
			return ApplyResult{Err: err, Clause: "close-error", Detail: "Close: " + panicDetail(err)}
		}
		w.Cfg.FileSize = int64(op.Arg)
		if err := w.Open(); err != nil {
			return ApplyResult{Err: err, Clause: "open-error", Detail: fmt.Sprintf("Open with DataFileSize %d after clean Close: %s", op.Arg, panicDetail(err))}
		}
		return ApplyResult{}
	case "batch":
		return w.applyBatch(op)
	}
	panic("unknown op " + op.K)
}

// applyBatch runs a whole batch (NewBatch, body, Commit) as one model mutation.
func (w *World) applyBatch(op Op) (res ApplyResult) {
	staged := map[string]*string{}
	var order []string
	var extra strings.Builder
	quiet := op.Arg&2 != 0 // no Batch.Get between the staging calls
	defer func() { res.Extra = extra.String() }()
	err := w.guard(func() error {
		b := w.DB.NewBatch(kv.BatchOptions{Sync: op.Arg&1 == 1})
		committed := false
		defer func() {
			if !committed && !w.Dead {
				// never leave the database locked by an abandoned batch
				func() {
					defer func() { recover() }()
					b.Commit()
				}()
			}
		}()
		for _, s := range op.Sub {
			w.Step++
			switch s.K {
			case "put":
				val := w.value(s.Key, s.VC, s.Arg)
				k, v := w.advArgs(s.Key, val)
				err := b.Put(k, v)
				w.advDone(s.Key, val, "Batch.Put")
				if err != nil {
					return fmt.Errorf("Batch.Put: %w", err)
				}
				sv := string(val)
				staged[s.Key] = &sv
				order = append(order, s.Key)
				w.remember(s.Key, val)
			case "del":
				k, _ := w.advArgs(s.Key, nil)
				err := b.Delete(k)
				w.advDone(s.Key, nil, "Batch.Delete")
				if err != nil {
					return fmt.Errorf("Batch.Delete: %w", err)
				}
				staged[s.Key] = nil
				order = append(order, s.Key)
			}
			if quiet {
				continue
			}
			for _, k := range w.Keys {
				var v []byte
				var err error
				if w.Adversarial {
					// the key passed to Batch.Get travels through the caller's reused buffer as well, and the answer is
					// judged on the spot: the staged operation of this batch, else the committed mapping
					kb, _ := w.advArgs(k, nil)
					v, err = b.Get(kb)
					w.advDone(k, nil, "Batch.Get")
					want, present := w.Model[k]
					if sv, ok := staged[k]; ok {
						present = sv != nil
						if present {
							want = *sv
						}
					}
					if res.Clause == "" && errClass(err) != "panic" {
						if present && (err != nil || string(v) != want) {
							res.Clause, res.Detail = "batch-get-wrong", fmt.Sprintf("Batch.Get(%q) after staging call %d = %s/%s, expected %s", k, len(order), short(string(v)), errClass(err), short(want))
						} else if !present && err == nil {
							res.Clause, res.Detail = "batch-get-wrong", fmt.Sprintf("Batch.Get(%q) after staging call %d = %s, expected not found", k, len(order), short(string(v)))
						}
					}
				} else {
					v, err = b.Get([]byte(k))
				}
				extra.WriteString(fmt.Sprintf("%s=%s/%s ", k, short(string(v)), errClass(err)))
			}
			extra.WriteString("| ")
			if w.Adversarial {
				// slices returned by Batch.Get are the caller's too: one is kept (it must not change when the key is
				// staged again), a second one is scribbled over (the staged value must not follow)
				for _, k := range w.Keys {
					if v, err := b.Get([]byte(k)); err == nil {
						w.Keep("Batch.Get("+k+")", v)
					}
					if v, err := b.Get([]byte(k)); err == nil {
						for i := range v {
							v[i] ^= 0xA5
						}
					}
				}
			}
		}
		committed = true
		return b.Commit()
	})
	res.Err = err
	if err == nil {
		for _, k := range order {
			if v := staged[k]; v != nil {
				w.Model[k] = *v
			} else {
				delete(w.Model, k)
			}
		}
		w.Cnt["batch_ok"]++
	} else {
		w.Errs++
	}
	return res
}

// RunTrace executes ops on a fresh world; after every op calls check (which may return a violation).
// The first violation stops the execution.
// custom (optional) may handle an operation itself (returns handled=true).
func RunTrace(cfg Cfg, keys []string, ops []Op, res *TaskResult, check func(w *World, i int, op Op, ar ApplyResult) *Violation, custom ...func(w *World, i int, op Op) (*Violation, bool)) *Violation {
	beginExecution()
	w := NewWorld(cfg, keys)
	defer w.Destroy()
	res.Execs++
	if err := w.Open(); err != nil {
		return viol("", "open-fresh", "open-fresh", "Open of a fresh directory failed: "+panicDetail(err))
	}
	for i, op := range ops {
		if len(custom) > 0 {
			if v, handled := custom[0](w, i, op); handled {
				res.Transitions++
				if v != nil {
					return v
				}
				if w.Dead || w.DB == nil {
					break
				}
				continue
			}
		}
		ar := w.Apply(op)
		res.Transitions++
		if v := check(w, i, op, ar); v != nil {
			return v
		}
		if w.Dead || w.DB == nil {
			break
		}
	}
	return nil
}

#!/usr/bin/env python3
"""tools/collectseeds.py <seeds-root> <results-dir> <round>
Copies confirmed seeded changes into /verif/seeded/<id>/ (patch.diff, demonstration, notes.md, meta.json)."""
import json, os, re, shutil, sys
root, results, rnd = sys.argv[1], sys.argv[2], sys.argv[3]
out = "/verif/seeded"
table = []
for f in sorted(os.listdir(results)):
    if not f.endswith(".json"):
        continue
    prop, x = f[:-5].split("-", 1)
    src = f"{root}/{prop}/{x}"
    try:
        r = json.load(open(f"{results}/{f}"))
    except Exception as e:
        print("skip", f, e); continue
    ok = r.get("patch_applies") and r.get("suite_passes_with_change") and r.get("demo", {}).get("with_change") == "FAIL" and r.get("demo", {}).get("without_change") == "pass"
    sid = f"{prop}-r{rnd}{x}"
    if not ok:
        print("NOT CONFIRMED", sid, {k: r.get(k) for k in ("patch_applies", "suite_passes_with_change", "demo")})
        continue
    dst = f"{out}/{sid}"
    os.makedirs(dst, exist_ok=True)
    for name in os.listdir(src):
        if name.endswith((".diff", "_test.go", ".md", ".go")):
            shutil.copy(f"{src}/{name}", f"{dst}/{name}")
    notes = open(f"{src}/notes.md").read() if os.path.exists(f"{src}/notes.md") else ""
    m = re.search(r"(?is)(trigger[^\n]*\n.*?)(\n#|\n\*\*|\Z)", notes)
    trigger = re.sub(r"\s+", " ", m.group(1)).strip()[:600] if m else ""
    diff = open(f"{src}/patch.diff").read()
    files = sorted(set(re.findall(r"^\+\+\+ b/(\S+)", diff, re.M)))
    checks = {c: {"exit": v["exit"], "reported": [l.strip() for l in v["lines"] if "clause=" in l][:3]} for c, v in r.get("checks", {}).items()}
    meta = {
        "id": sid, "property": prop, "round": int(rnd), "author": "independent sub-agent (given only the property text and a scratch worktree)",
        "files_changed": files, "needs_to_manifest": trigger,
        "confirmed": {"repository_suite_with_change": "pass", "demo_with_change": "fail", "demo_without_change": "pass",
                      "how": "tools/seedeval.py: scratch copies of /repo (clean and patched), go test -vet=off -count=1 ./..., demo copied into its package and run with go test -run, then ./run.sh <check> quick with VERIF_REPO=<patched copy>"},
        "checks_run": checks,
        "detected_by": [c for c, v in checks.items() if v["exit"] == 1],
    }
    json.dump(meta, open(f"{dst}/meta.json", "w"), indent=1)
    table.append((sid, ", ".join(files), ", ".join(meta["detected_by"]) or "MISSED", "; ".join(sum([v["reported"] for v in checks.values()], []))[:110]))
for t in table:
    print("| %s | %s | %s | %s |" % t)

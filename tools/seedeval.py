#!/usr/bin/env python3
"""tools/seedeval.py <seed-dir> <Cxx> [more checks...]
Confirms a seeded change (patch.diff + demo_test.go): suite passes with it, demo fails with it and passes
without it; then runs the given quick checks against the patched scratch copy. Prints a JSON summary."""
import json, os, re, shutil, subprocess, sys, tempfile
env = dict(os.environ, GOFLAGS="-mod=mod", GOPROXY="off", GOSUMDB="off", GOTOOLCHAIN="local")

def sh(cmd, cwd=None, timeout=1800, extra=None):
    e = dict(env); e.update(extra or {})
    p = subprocess.run(cmd, shell=True, cwd=cwd, env=e, stdout=subprocess.PIPE, stderr=subprocess.STDOUT, timeout=timeout)
    return p.returncode, p.stdout.decode(errors="replace")

def main():
    seed = sys.argv[1].rstrip("/")
    checks = sys.argv[2:]
    out = {"seed": seed}
    d = tempfile.mkdtemp(prefix="seedeval.", dir="/dev/shm")
    try:
        clean, mut = d + "/clean", d + "/mut"
        sh(f"rsync -a --exclude .git /repo/ {clean}/")
        sh(f"rsync -a --exclude .git /repo/ {mut}/")
        rc, o = sh(f"patch -p1 -s < {seed}/patch.diff", cwd=mut)
        out["patch_applies"] = rc == 0
        if rc != 0:
            out["patch_output"] = o[-500:]
            print(json.dumps(out, indent=1)); return
        rc, o = sh("go build ./... && go test -vet=off -count=1 ./... 2>&1 | grep -v 'no test files'", cwd=mut)
        out["suite_passes_with_change"] = rc == 0 and "FAIL" not in o
        if not out["suite_passes_with_change"]:
            out["suite_output"] = o[-800:]
        demos = [f for f in os.listdir(seed) if f.endswith("_test.go")]
        out["demo"] = {}
        for demo in demos:
            src = open(f"{seed}/{demo}").read()
            pkg = re.search(r"^package\s+(\w+)", src, re.M).group(1)
            sub = {"xixi_kv": ".", "xixi_kv_test": "."}.get(pkg, pkg.replace("_test", ""))
            tests = re.findall(r"^func (Test\w+)\(", src, re.M)
            pat = "|".join(tests)
            notes = open(f"{seed}/notes.md").read() if os.path.exists(f"{seed}/notes.md") else ""
            race = "-race " if re.search(r"^//go:build .*\brace\b", src, re.M) or "go test -race" in notes else ""
            for name, root in (("with_change", mut), ("without_change", clean)):
                shutil.copy(f"{seed}/{demo}", f"{root}/{sub}/zz_seed_{demo}")
                rc, o = sh(f"go test {race}-vet=off -count=1 -run '^({pat})$' ./{sub}", cwd=root, timeout=900)
                os.remove(f"{root}/{sub}/zz_seed_{demo}")
                out["demo"][name] = "pass" if rc == 0 else "FAIL"
                if name == "with_change" and rc == 0:
                    out["demo"]["note"] = "demo did not fail with the change"
        out["checks"] = {}
        for c in checks:
            rc, o = sh(f"/verif/run.sh {c} quick", extra={"VERIF_REPO": mut, "VERIF_OUT": d + "/out"}, timeout=2400)
            lines = [l for l in o.splitlines() if re.match(r"(VIOLATION|KNOWN-FINDING|HARNESS-ERROR|\s+clause=|C\d+ quick)", l)]
            out["checks"][c] = {"exit": rc, "lines": [l[:220] for l in lines[:7]]}
    finally:
        shutil.rmtree(d, ignore_errors=True)
    print(json.dumps(out, indent=1))

if __name__ == "__main__":
    main()

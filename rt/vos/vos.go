// Package vos replaces "os" in the code under test. Mutating calls are reported to package iorec.
package vos

import (
	"errors"
	"io/fs"
	"os"
	"time"

	"github.com/XiXi-2024/xixi-kv/verifrt/iorec"
	"github.com/XiXi-2024/xixi-kv/verifrt/sched"
)

// File wraps *os.File; the mutating methods are intercepted, everything else is promoted.
type File struct {
	*os.File
	path string
}

// Real returns the underlying *os.File (used by the vmmap shim).
func (f *File) Real() *os.File { return f.File }

func wrap(f *os.File, name string) *File {
	if f == nil {
		return nil
	}
	return &File{File: f, path: name}
}

func OpenFile(name string, flag int, perm FileMode) (*File, error) {
	op := "open"
	if flag&os.O_CREATE != 0 {
		if _, err := os.Lstat(name); err != nil {
			op = "create"
		}
	}
	if flag&(os.O_WRONLY|os.O_RDWR|os.O_CREATE|os.O_TRUNC|os.O_APPEND) == 0 {
		// read-only open: not an event
		f, err := os.OpenFile(name, flag, perm)
		return wrap(f, name), err
	}
	var f *os.File
	err := iorec.Do(op, name, "", 0, 0, func() error {
		var e error
		f, e = os.OpenFile(name, flag, perm)
		return e
	})
	if err != nil {
		return nil, err
	}
	return wrap(f, name), nil
}

func Open(name string) (*File, error) { return OpenFile(name, os.O_RDONLY, 0) }

func Create(name string) (*File, error) {
	return OpenFile(name, os.O_RDWR|os.O_CREATE|os.O_TRUNC, 0666)
}

func (f *File) Write(b []byte) (n int, err error) {
	var off int64
	if st, e := f.File.Stat(); e == nil {
		off = st.Size()
	}
	err = iorec.Do("write", f.path, "", off, int64(len(b)), func() error {
		var e error
		n, e = f.File.Write(b)
		return e
	})
	var sw *iorec.ShortWrite
	if errors.As(err, &sw) && sw.N > 0 && sw.N < len(b) {
		n, _ = f.File.Write(b[:sw.N]) // the part that reached the device
	}
	return
}

func (f *File) WriteString(s string) (n int, err error) { return f.Write([]byte(s)) }

// ReadAt: reads are not I/O events (they change nothing on disk), but the fault injector may fail them.
// ReadPoints makes every read-side call on a file (ReadAt, Read, Seek) a schedule point: two readers of one
// descriptor can then be interleaved between a Seek and the Read that relies on it.
var ReadPoints bool

func (f *File) Read(b []byte) (int, error) {
	if ReadPoints {
		sched.Yield()
	}
	if iorec.Before != nil {
		if err := iorec.Before("read", f.path, "", int64(len(b))); err != nil {
			return 0, err
		}
	}
	return f.File.Read(b)
}

func (f *File) Seek(offset int64, whence int) (int64, error) {
	if ReadPoints {
		sched.Yield()
	}
	return f.File.Seek(offset, whence)
}

func (f *File) ReadAt(b []byte, off int64) (int, error) {
	if ReadPoints {
		sched.Yield()
	}
	if iorec.Before != nil {
		if err := iorec.Before("read", f.path, "", int64(len(b))); err != nil {
			return 0, err
		}
	}
	return f.File.ReadAt(b, off)
}

func (f *File) WriteAt(b []byte, off int64) (n int, err error) {
	err = iorec.Do("writeat", f.path, "", off, int64(len(b)), func() error {
		var e error
		n, e = f.File.WriteAt(b, off)
		return e
	})
	return
}

func (f *File) Sync() error {
	return iorec.Do("sync", f.path, "", 0, 0, func() error { return f.File.Sync() })
}

func (f *File) Truncate(size int64) error {
	return iorec.Do("truncate", f.path, "", 0, size, func() error { return f.File.Truncate(size) })
}

func (f *File) Close() error {
	return iorec.Do("close", f.path, "", 0, 0, func() error { return f.File.Close() })
}

func Remove(name string) error {
	return iorec.Do("remove", name, "", 0, 0, func() error { return os.Remove(name) })
}

func RemoveAll(name string) error {
	return iorec.Do("removeall", name, "", 0, 0, func() error { return os.RemoveAll(name) })
}

func Rename(oldpath, newpath string) error {
	return iorec.Do("rename", oldpath, newpath, 0, 0, func() error { return os.Rename(oldpath, newpath) })
}

func Mkdir(name string, perm FileMode) error {
	return iorec.Do("mkdir", name, "", 0, 0, func() error { return os.Mkdir(name, perm) })
}

func MkdirAll(name string, perm FileMode) error {
	if st, err := os.Stat(name); err == nil && st.IsDir() {
		return nil // nothing to do: not an event
	}
	return iorec.Do("mkdirall", name, "", 0, 0, func() error { return os.MkdirAll(name, perm) })
}

func WriteFile(name string, data []byte, perm FileMode) error {
	return iorec.Do("writefile", name, "", 0, int64(len(data)), func() error { return os.WriteFile(name, data, perm) })
}

func Truncate(name string, size int64) error {
	return iorec.Do("truncate", name, "", 0, size, func() error { return os.Truncate(name, size) })
}

func Symlink(oldname, newname string) error {
	return iorec.Do("symlink", oldname, newname, 0, 0, func() error { return os.Symlink(oldname, newname) })
}

func Link(oldname, newname string) error {
	return iorec.Do("link", oldname, newname, 0, 0, func() error { return os.Link(oldname, newname) })
}

func Chtimes(name string, atime, mtime time.Time) error { return os.Chtimes(name, atime, mtime) }

type (
	FileInfo     = os.FileInfo
	FileMode     = os.FileMode
	DirEntry     = os.DirEntry
	PathError    = os.PathError
	LinkError    = os.LinkError
	SyscallError = os.SyscallError
	Signal       = os.Signal
	Process      = os.Process
	ProcAttr     = os.ProcAttr
	ProcessState = os.ProcessState
)

const (
	O_RDONLY = os.O_RDONLY
	O_WRONLY = os.O_WRONLY
	O_RDWR   = os.O_RDWR
	O_APPEND = os.O_APPEND
	O_CREATE = os.O_CREATE
	O_EXCL   = os.O_EXCL
	O_SYNC   = os.O_SYNC
	O_TRUNC  = os.O_TRUNC

	SEEK_SET = os.SEEK_SET
	SEEK_CUR = os.SEEK_CUR
	SEEK_END = os.SEEK_END

	PathSeparator     = os.PathSeparator
	PathListSeparator = os.PathListSeparator
	DevNull           = os.DevNull

	ModeDir        = os.ModeDir
	ModeAppend     = os.ModeAppend
	ModeExclusive  = os.ModeExclusive
	ModeTemporary  = os.ModeTemporary
	ModeSymlink    = os.ModeSymlink
	ModeDevice     = os.ModeDevice
	ModeNamedPipe  = os.ModeNamedPipe
	ModeSocket     = os.ModeSocket
	ModeSetuid     = os.ModeSetuid
	ModeSetgid     = os.ModeSetgid
	ModeCharDevice = os.ModeCharDevice
	ModeSticky     = os.ModeSticky
	ModeIrregular  = os.ModeIrregular
	ModeType       = os.ModeType
	ModePerm       = os.ModePerm
)

var (
	ErrInvalid          = os.ErrInvalid
	ErrPermission       = os.ErrPermission
	ErrExist            = os.ErrExist
	ErrNotExist         = os.ErrNotExist
	ErrClosed           = os.ErrClosed
	ErrNoDeadline       = os.ErrNoDeadline
	ErrDeadlineExceeded = os.ErrDeadlineExceeded
	ErrProcessDone      = os.ErrProcessDone

	Args   = os.Args
	Stdin  = os.Stdin
	Stdout = os.Stdout
	Stderr = os.Stderr
)

func Stat(name string) (FileInfo, error)            { return os.Stat(name) }
func Lstat(name string) (FileInfo, error)           { return os.Lstat(name) }
func ReadDir(name string) ([]DirEntry, error)       { return os.ReadDir(name) }
func ReadFile(name string) ([]byte, error)          { return os.ReadFile(name) }
func IsNotExist(err error) bool                     { return os.IsNotExist(err) }
func IsExist(err error) bool                        { return os.IsExist(err) }
func IsPermission(err error) bool                   { return os.IsPermission(err) }
func IsTimeout(err error) bool                      { return os.IsTimeout(err) }
func IsPathSeparator(c uint8) bool                  { return os.IsPathSeparator(c) }
func TempDir() string                               { return os.TempDir() }
func MkdirTemp(dir, pattern string) (string, error) { return os.MkdirTemp(dir, pattern) }
func Getwd() (string, error)                        { return os.Getwd() }
func Getenv(key string) string                      { return os.Getenv(key) }
func LookupEnv(key string) (string, bool)           { return os.LookupEnv(key) }
func Setenv(key, value string) error                { return os.Setenv(key, value) }
func Getpid() int                                   { return os.Getpid() }
func Getpagesize() int                              { return os.Getpagesize() }
func Exit(code int)                                 { os.Exit(code) }
func Hostname() (string, error)                     { return os.Hostname() }
func UserHomeDir() (string, error)                  { return os.UserHomeDir() }
func SameFile(fi1, fi2 FileInfo) bool               { return os.SameFile(fi1, fi2) }
func Chmod(name string, mode FileMode) error        { return os.Chmod(name, mode) }
func DirFS(dir string) fs.FS                        { return os.DirFS(dir) }
func Readlink(name string) (string, error)          { return os.Readlink(name) }
func Environ() []string                             { return os.Environ() }
func Executable() (string, error)                   { return os.Executable() }
func NewSyscallError(s string, err error) error     { return os.NewSyscallError(s, err) }

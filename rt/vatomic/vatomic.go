// Package vatomic replaces "sync/atomic" in the code under test: a schedule point, then the real atomic.
package vatomic

import (
	"sync/atomic"
	"unsafe"

	"github.com/XiXi-2024/xixi-kv/verifrt/sched"
)

func AddInt32(addr *int32, delta int32) int32 { sched.Yield(); return atomic.AddInt32(addr, delta) }
func AddInt64(addr *int64, delta int64) int64 { sched.Yield(); return atomic.AddInt64(addr, delta) }
func AddUint32(addr *uint32, delta uint32) uint32 {
	sched.Yield()
	return atomic.AddUint32(addr, delta)
}
func AddUint64(addr *uint64, delta uint64) uint64 {
	sched.Yield()
	return atomic.AddUint64(addr, delta)
}
func AddUintptr(addr *uintptr, d uintptr) uintptr     { sched.Yield(); return atomic.AddUintptr(addr, d) }
func LoadInt32(addr *int32) int32                     { sched.Yield(); return atomic.LoadInt32(addr) }
func LoadInt64(addr *int64) int64                     { sched.Yield(); return atomic.LoadInt64(addr) }
func LoadUint32(addr *uint32) uint32                  { sched.Yield(); return atomic.LoadUint32(addr) }
func LoadUint64(addr *uint64) uint64                  { sched.Yield(); return atomic.LoadUint64(addr) }
func LoadUintptr(addr *uintptr) uintptr               { sched.Yield(); return atomic.LoadUintptr(addr) }
func LoadPointer(addr *unsafe.Pointer) unsafe.Pointer { sched.Yield(); return atomic.LoadPointer(addr) }
func StoreInt32(addr *int32, v int32)                 { sched.Yield(); atomic.StoreInt32(addr, v) }
func StoreInt64(addr *int64, v int64)                 { sched.Yield(); atomic.StoreInt64(addr, v) }
func StoreUint32(addr *uint32, v uint32)              { sched.Yield(); atomic.StoreUint32(addr, v) }
func StoreUint64(addr *uint64, v uint64)              { sched.Yield(); atomic.StoreUint64(addr, v) }
func StoreUintptr(addr *uintptr, v uintptr)           { sched.Yield(); atomic.StoreUintptr(addr, v) }
func StorePointer(addr *unsafe.Pointer, v unsafe.Pointer) {
	sched.Yield()
	atomic.StorePointer(addr, v)
}
func SwapInt32(addr *int32, v int32) int32         { sched.Yield(); return atomic.SwapInt32(addr, v) }
func SwapInt64(addr *int64, v int64) int64         { sched.Yield(); return atomic.SwapInt64(addr, v) }
func SwapUint32(addr *uint32, v uint32) uint32     { sched.Yield(); return atomic.SwapUint32(addr, v) }
func SwapUint64(addr *uint64, v uint64) uint64     { sched.Yield(); return atomic.SwapUint64(addr, v) }
func SwapUintptr(addr *uintptr, v uintptr) uintptr { sched.Yield(); return atomic.SwapUintptr(addr, v) }
func SwapPointer(addr *unsafe.Pointer, v unsafe.Pointer) unsafe.Pointer {
	sched.Yield()
	return atomic.SwapPointer(addr, v)
}
func CompareAndSwapInt32(addr *int32, o, n int32) bool {
	sched.Yield()
	return atomic.CompareAndSwapInt32(addr, o, n)
}
func CompareAndSwapInt64(addr *int64, o, n int64) bool {
	sched.Yield()
	return atomic.CompareAndSwapInt64(addr, o, n)
}
func CompareAndSwapUint32(addr *uint32, o, n uint32) bool {
	sched.Yield()
	return atomic.CompareAndSwapUint32(addr, o, n)
}
func CompareAndSwapUint64(addr *uint64, o, n uint64) bool {
	sched.Yield()
	return atomic.CompareAndSwapUint64(addr, o, n)
}
func CompareAndSwapUintptr(addr *uintptr, o, n uintptr) bool {
	sched.Yield()
	return atomic.CompareAndSwapUintptr(addr, o, n)
}
func CompareAndSwapPointer(addr *unsafe.Pointer, o, n unsafe.Pointer) bool {
	sched.Yield()
	return atomic.CompareAndSwapPointer(addr, o, n)
}

type Value = atomic.Value

type Bool struct{ v atomic.Bool }

func (x *Bool) Load() bool                    { sched.Yield(); return x.v.Load() }
func (x *Bool) Store(val bool)                { sched.Yield(); x.v.Store(val) }
func (x *Bool) Swap(n bool) bool              { sched.Yield(); return x.v.Swap(n) }
func (x *Bool) CompareAndSwap(o, n bool) bool { sched.Yield(); return x.v.CompareAndSwap(o, n) }

type Int32 struct{ v atomic.Int32 }

func (x *Int32) Load() int32                    { sched.Yield(); return x.v.Load() }
func (x *Int32) Store(val int32)                { sched.Yield(); x.v.Store(val) }
func (x *Int32) Swap(n int32) int32             { sched.Yield(); return x.v.Swap(n) }
func (x *Int32) Add(d int32) int32              { sched.Yield(); return x.v.Add(d) }
func (x *Int32) CompareAndSwap(o, n int32) bool { sched.Yield(); return x.v.CompareAndSwap(o, n) }

type Int64 struct{ v atomic.Int64 }

func (x *Int64) Load() int64                    { sched.Yield(); return x.v.Load() }
func (x *Int64) Store(val int64)                { sched.Yield(); x.v.Store(val) }
func (x *Int64) Swap(n int64) int64             { sched.Yield(); return x.v.Swap(n) }
func (x *Int64) Add(d int64) int64              { sched.Yield(); return x.v.Add(d) }
func (x *Int64) CompareAndSwap(o, n int64) bool { sched.Yield(); return x.v.CompareAndSwap(o, n) }

type Uint32 struct{ v atomic.Uint32 }

func (x *Uint32) Load() uint32                    { sched.Yield(); return x.v.Load() }
func (x *Uint32) Store(val uint32)                { sched.Yield(); x.v.Store(val) }
func (x *Uint32) Swap(n uint32) uint32            { sched.Yield(); return x.v.Swap(n) }
func (x *Uint32) Add(d uint32) uint32             { sched.Yield(); return x.v.Add(d) }
func (x *Uint32) CompareAndSwap(o, n uint32) bool { sched.Yield(); return x.v.CompareAndSwap(o, n) }

type Uint64 struct{ v atomic.Uint64 }

func (x *Uint64) Load() uint64                    { sched.Yield(); return x.v.Load() }
func (x *Uint64) Store(val uint64)                { sched.Yield(); x.v.Store(val) }
func (x *Uint64) Swap(n uint64) uint64            { sched.Yield(); return x.v.Swap(n) }
func (x *Uint64) Add(d uint64) uint64             { sched.Yield(); return x.v.Add(d) }
func (x *Uint64) CompareAndSwap(o, n uint64) bool { sched.Yield(); return x.v.CompareAndSwap(o, n) }

type Uintptr struct{ v atomic.Uintptr }

func (x *Uintptr) Load() uintptr                    { sched.Yield(); return x.v.Load() }
func (x *Uintptr) Store(val uintptr)                { sched.Yield(); x.v.Store(val) }
func (x *Uintptr) Swap(n uintptr) uintptr           { sched.Yield(); return x.v.Swap(n) }
func (x *Uintptr) Add(d uintptr) uintptr            { sched.Yield(); return x.v.Add(d) }
func (x *Uintptr) CompareAndSwap(o, n uintptr) bool { sched.Yield(); return x.v.CompareAndSwap(o, n) }

type Pointer[T any] struct{ v atomic.Pointer[T] }

func (x *Pointer[T]) Load() *T                    { sched.Yield(); return x.v.Load() }
func (x *Pointer[T]) Store(val *T)                { sched.Yield(); x.v.Store(val) }
func (x *Pointer[T]) Swap(n *T) *T                { sched.Yield(); return x.v.Swap(n) }
func (x *Pointer[T]) CompareAndSwap(o, n *T) bool { sched.Yield(); return x.v.CompareAndSwap(o, n) }

package main

import (
	"errors"
	"fmt"
	"strings"

	kv "github.com/XiXi-2024/xixi-kv"
	"github.com/XiXi-2024/xixi-kv/verifrt/sched"
	"github.com/XiXi-2024/xixi-kv/verifrt/vsync"
)

// ---- SCHED: preemption-bounded DFS over the schedules of a closed scenario -----------------------

// Call is one API call of a controlled thread.
type Call struct {
	K   string `json:"k"` // put get del listkeys fold iter stat sync batch merge
	Key string `json:"key,omitempty"`
}

func (c Call) String() string {
	if c.Key != "" {
		return c.K + "(" + c.Key + ")"
	}
	return c.K
}

// Scenario: an initial history (sequential), then threads of calls.
type Scenario struct {
	Cfg     Cfg      `json:"cfg"`
	Init    []Op     `json:"init"`
	Threads [][]Call `json:"threads"`
	// SharedBatch: one Batch is created before the threads start and used by all of them (calls bput bdel bget
	// bcommit); whoever is left commits it after the threads have finished
	SharedBatch bool `json:"shared_batch,omitempty"`
}

var sharedBatch *kv.Batch

func (s Scenario) String() string {
	var ts []string
	for i, t := range s.Threads {
		var cs []string
		for _, c := range t {
			cs = append(cs, c.String())
		}
		ts = append(ts, fmt.Sprintf("T%d[%s]", i, strings.Join(cs, " ")))
	}
	return fmt.Sprintf("%s init=[%s] %s", s.Cfg, traceString(s.Init), strings.Join(ts, " || "))
}

// CallRec is the recorded call/return of one call.
type CallRec struct {
	Thread   int
	Call     Call
	Val      string // value written (put) or read (get)
	Found    bool   // get: found
	Err      string // error class ("nil" = none)
	T0, T1   int64  // logical call / return stamps
	Extra    string // listkeys / fold / iter: rendered result
	NilKey   bool   // ListKeys returned a nil key
	Panicked bool
}

// ExecResult of one schedule.
type ExecResult struct {
	Sched    *sched.Result
	Calls    []CallRec
	Live     *Dump
	Restart  *Dump
	Restart2 *Dump
	OpenErr  string
	RaceN    int // race reports produced by this execution (race build)
}

var raceSeen int

// runScenario executes one schedule (choice prefix) of the scenario.
func runScenario(sc Scenario, prefix []int8, epilogueRestart bool) *ExecResult {
	beginExecution()
	w := NewWorld(sc.Cfg, keysAB)
	defer w.Destroy()
	ex := &ExecResult{}
	if err := w.Open(); err != nil {
		ex.OpenErr = "open: " + panicDetail(err)
		return ex
	}
	for _, op := range sc.Init {
		if ar := w.Apply(op); ar.Err != nil || w.Dead {
			ex.OpenErr = "init failed: " + op.String()
			return ex
		}
	}
	db := w.DB
	sharedBatch = nil
	if sc.SharedBatch {
		sharedBatch = db.NewBatch(kv.BatchOptions{})
	}
	recs := make([][]CallRec, len(sc.Threads))
	fns := make([]func(), len(sc.Threads))
	for ti := range sc.Threads {
		ti := ti
		fns[ti] = func() {
			for ci, c := range sc.Threads[ti] {
				r := CallRec{Thread: ti, Call: c, Err: "nil"}
				r.T0 = sched.Tick()
				recs[ti] = append(recs[ti], r) // visible even if the call panics
				cur := &recs[ti][len(recs[ti])-1]
				cur.Panicked = true
				doCall(db, c, ti, ci, cur)
				cur.Panicked = false
				cur.T1 = sched.Tick()
			}
		}
	}
	ex.Sched = sched.Run(prefix, fns...)
	sched.SetMode(sched.ModeSeq)
	// every report since the previous execution is attributed here (nothing is lost between executions)
	now := raceCount()
	ex.RaceN = now - raceSeen
	raceSeen = now
	for _, rs := range recs {
		ex.Calls = append(ex.Calls, rs...)
	}
	if ex.Sched.Abort != sched.AbortNone {
		w.Dead = true // locks may be held: abandon the instance
		return ex
	}
	for _, p := range ex.Sched.Panics {
		if p != "" {
			w.Dead = true
			return ex
		}
	}
	if sharedBatch != nil {
		// the batch holds the database lock until it is committed
		if err := w.guard(func() error { return sharedBatch.Commit() }); err != nil && errClass(err) == "panic" {
			ex.Sched.Panics = append(ex.Sched.Panics, "final Commit of the shared batch: "+panicDetail(err))
			w.Dead = true
			return ex
		}
	}
	ex.Live = w.DumpDB()
	if !epilogueRestart || w.Dead {
		return ex
	}
	if ar := w.Apply(Op{K: "restart"}); ar.Clause != "" {
		ex.OpenErr = ar.Detail
		return ex
	}
	ex.Restart = w.DumpDB()
	if ar := w.Apply(Op{K: "restart"}); ar.Clause != "" {
		ex.OpenErr = ar.Detail
		return ex
	}
	ex.Restart2 = w.DumpDB()
	return ex
}

func doCall(db *kv.DB, c Call, ti, ci int, r *CallRec) {
	val := fmt.Sprintf("t%dc%d", ti, ci)
	switch c.K {
	case "put":
		r.Val = val
		r.Err = errClass(db.Put([]byte(c.Key), []byte(val)))
	case "get":
		v, err := db.Get([]byte(c.Key))
		r.Err = errClass(err)
		if err == nil {
			r.Val, r.Found = string(v), true
		} else if errors.Is(err, kv.ErrKeyNotFound) {
			r.Err = "nil"
		}
	case "del":
		r.Err = errClass(db.Delete([]byte(c.Key)))
	case "listkeys":
		var ks []string
		for _, k := range db.ListKeys() {
			if k == nil {
				r.NilKey = true
				continue
			}
			ks = append(ks, string(k))
		}
		r.Extra = strings.Join(ks, ",")
	case "fold":
		var ks []string
		err := db.Fold(func(k, v []byte) bool { ks = append(ks, string(k)+"="+string(v)); return true })
		r.Err = errClass(err)
		r.Extra = strings.Join(ks, ",")
	case "iter":
		it := db.NewIterator(kv.IteratorOptions{})
		var ks []string
		for it.Rewind(); it.Valid(); it.Next() {
			v, err := it.Value()
			if err != nil {
				r.Err = errClass(err)
			}
			ks = append(ks, string(it.Key())+"="+string(v))
		}
		it.Close()
		r.Extra = strings.Join(ks, ",")
	case "stat":
		s := db.Stat()
		r.Extra = fmt.Sprintf("%d/%d", s.KeyNum, s.DataFileNum)
	case "sync":
		r.Err = errClass(db.Sync())
	case "batch":
		b := db.NewBatch(kv.BatchOptions{})
		e1 := b.Put([]byte(c.Key), []byte(val))
		r.Val = val
		e2 := b.Commit()
		if e1 != nil {
			r.Err = errClass(e1)
		} else {
			r.Err = errClass(e2)
		}
	case "bput":
		r.Val = val
		r.Err = batchErr(sharedBatch.Put([]byte(c.Key), []byte(val)))
	case "bdel":
		r.Err = batchErr(sharedBatch.Delete([]byte(c.Key)))
	case "bget":
		v, err := sharedBatch.Get([]byte(c.Key))
		r.Err = batchErr(err)
		if err == nil {
			r.Val, r.Found = string(v), true
		} else if errors.Is(err, kv.ErrKeyNotFound) {
			r.Err = "nil"
		}
	case "bcommit":
		r.Err = batchErr(sharedBatch.Commit())
	case "merge":
		err := db.Merge()
		r.Err = errClass(err)
		if errors.Is(err, kv.ErrMergeIsProgress) {
			r.Err = "nil"
		}
	}
}

// batchErr: a call on a batch that another thread has already committed is rejected with ErrBatchCommitted - valid.
func batchErr(err error) string {
	if errors.Is(err, kv.ErrBatchCommitted) {
		return "nil"
	}
	return errClass(err)
}

// exploreSchedules runs the iterative-context-bounding DFS: all schedules with at most bound
// preemptions (bound < 0: unbounded). visit returns false to stop. Returns (#schedules, complete).
func exploreSchedules(run func(prefix []int8) *ExecResult, bound int, maxSchedules int, visit func(ex *ExecResult, prefix []int8) bool) (int, bool) {
	n := 0
	complete := true
	var rec func(prefix []int8) bool
	rec = func(prefix []int8) bool {
		if maxSchedules > 0 && n >= maxSchedules {
			complete = false
			return false
		}
		progressTick.Add(1)
		ex := run(prefix)
		n++
		if !visit(ex, prefix) {
			return false
		}
		r := ex.Sched
		if r == nil {
			return true
		}
		pre := 0
		for i := 0; i < r.N; i++ {
			if i >= len(prefix) {
				cnt := 0
				for m := r.Masks[i]; m != 0; m &= m - 1 {
					cnt++
				}
				cost := pre
				if r.Runners[i] >= 0 {
					cost++ // switching away from a still enabled thread is a preemption
				}
				if bound < 0 || cost <= bound {
					for alt := 1; alt < cnt; alt++ {
						np := make([]int8, i+1)
						copy(np, r.Choices[:i])
						np[i] = int8(alt)
						if !rec(np) {
							return false
						}
					}
				}
			}
			if r.Runners[i] >= 0 && r.Choices[i] != 0 {
				pre++
			}
		}
		return true
	}
	rec(nil)
	return n, complete
}

func init() { _ = vsync.NewGeneration }

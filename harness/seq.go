package main

import (
	"encoding/json"
	"fmt"
	"os"
)

// enumSeq enumerates all maximal sequences of length depth over alpha that start with the symbol
// indices in prefix and contain at most devBound deviant symbols. (Oracles are evaluated after every
// step, so every shorter sequence is covered as a prefix.)
func enumSeq(alpha []Op, depth, devBound int, prefix []int, visit func(seq []Op) bool) {
	seq := make([]Op, 0, depth)
	dev := 0
	for _, i := range prefix {
		seq = append(seq, alpha[i])
		if alpha[i].Dev {
			dev++
		}
	}
	if dev > devBound || len(seq) > depth {
		return
	}
	var rec func(dev int) bool
	rec = func(dev int) bool {
		if len(seq) == depth {
			return visit(seq)
		}
		for i := range alpha {
			d := dev
			if alpha[i].Dev {
				d++
				if d > devBound {
					continue
				}
			}
			seq = append(seq, alpha[i])
			ok := rec(d)
			seq = seq[:len(seq)-1]
			if !ok {
				return false
			}
		}
		return true
	}
	rec(dev)
}

// countSeq evaluates Σ_j C(d,j)·o^(d−j)·v^j for j ≤ b (the number of maximal sequences).
func countSeq(alpha []Op, depth, devBound int) int64 {
	o, v := int64(0), int64(0)
	for _, a := range alpha {
		if a.Dev {
			v++
		} else {
			o++
		}
	}
	var total int64
	for j := 0; j <= devBound && j <= depth; j++ {
		c := int64(1)
		for i := 0; i < j; i++ {
			c = c * int64(depth-i) / int64(i+1)
		}
		t := c
		for i := 0; i < depth-j; i++ {
			t *= o
		}
		for i := 0; i < j; i++ {
			t *= v
		}
		total += t
	}
	return total
}

// seqReplay is the replay artefact of a sequential trace.
type seqReplay struct {
	Engine string   `json:"engine"`
	Prop   string   `json:"property"`
	Cfg    Cfg      `json:"cfg"`
	Keys   []string `json:"keys"`
	Ops    []Op     `json:"ops"`
	Trace  string   `json:"trace"`
	Extra  any      `json:"extra,omitempty"`
}

// seqTasks builds the task list of a plain SEQ exploration: one task per (configuration, first
// symbol [, second symbol]).
type seqLevel struct {
	Name     string
	Cfgs     []Cfg
	Keys     []string
	Alpha    func(c Cfg) []Op
	Depth    int
	Dev      int
	Split    int // number of leading symbols that define a task (1 or 2)
	Run      func(cfg Cfg, keys []string, ops []Op, res *TaskResult) *Violation
	MaxViols int
}

func seqTasks(prop string, levels []seqLevel) []Task {
	var tasks []Task
	for _, lv := range levels {
		lv := lv
		if lv.Split == 0 {
			lv.Split = 1
		}
		for _, cfg := range lv.Cfgs {
			cfg := cfg
			alpha := lv.Alpha(cfg)
			var prefixes [][]int
			var gen func(p []int)
			gen = func(p []int) {
				if len(p) == lv.Split || len(p) == lv.Depth {
					prefixes = append(prefixes, append([]int{}, p...))
					return
				}
				for i := range alpha {
					gen(append(p, i))
				}
			}
			gen(nil)
			for _, p := range prefixes {
				p := p
				tasks = append(tasks, Task{Level: lv.Name, Name: fmt.Sprintf("%s %s %v", lv.Name, cfg, p), Fn: func(res *TaskResult) {
					states := map[uint64]struct{}{}
					enumSeq(alpha, lv.Depth, lv.Dev, p, func(seq []Op) bool {
						announce(func() string { return cfg.String() + " :: " + traceString(seq) })
						v := lv.Run(cfg, lv.Keys, seq, res)
						if v != nil {
							// confirm: the same trace must fail the same way again
							ok := 0
							for i := 0; i < 2; i++ {
								var dummy TaskResult
								if v2 := lv.Run(cfg, lv.Keys, seq, &dummy); v2 != nil && v2.Clause == v.Clause {
									ok++
								}
							}
							v.Prop = prop
							if len(v.Replay) == 0 { // (a runner with its own replay engine - fault, quiet - has set it)
								v.Replay = mustJSON(seqReplay{Engine: "seq", Prop: prop, Cfg: cfg, Keys: lv.Keys, Ops: append([]Op{}, seq...), Trace: traceString(seq)})
								v.Detail = fmt.Sprintf("cfg=%s trace=[%s]\n%s", cfg, traceString(seq), v.Detail)
							}
							if ok < 2 {
								res.Err = fmt.Sprintf("non-reproducible failure (%d/2 re-runs): %s", ok, v.Detail)
								return false
							}
							res.Violations = append(res.Violations, *v)
							max := lv.MaxViols
							if max == 0 {
								max = 3
							}
							if len(res.Violations) >= max {
								return false
							}
						}
						if len(res.Samples) < 1 {
							res.Samples = append(res.Samples, cfg.String()+" :: "+traceString(seq))
						}
						return true
					})
					for s := range states {
						res.States = append(res.States, s)
					}
				}})
			}
		}
	}
	return tasks
}

func seqReplayMain(raw json.RawMessage, run func(cfg Cfg, keys []string, ops []Op, res *TaskResult) *Violation) {
	var r seqReplay
	if err := json.Unmarshal(raw, &r); err != nil {
		fmt.Fprintln(os.Stderr, "bad replay:", err)
		os.Exit(2)
	}
	var res TaskResult
	fmt.Printf("replaying cfg=%s trace=[%s]\n", r.Cfg, traceString(r.Ops))
	v := run(r.Cfg, r.Keys, r.Ops, &res)
	if v == nil {
		fmt.Println("no violation on this tree")
		return
	}
	fmt.Printf("VIOLATION clause=%s sig=%s\n%s\n", v.Clause, v.Sig, v.Detail)
	os.Exit(1)
}

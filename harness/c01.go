package main

import (
	"encoding/json"
	"fmt"
	"os"
	"path/filepath"
	"syscall"

	"github.com/XiXi-2024/xixi-kv/verifrt/iorec"
)

// ---- shared alphabets -------------------------------------------------------------------------

var keysAB = []string{"a", "b"}

func batchBodies() [][]Op {
	p := func(k, vc string) Op { return Op{K: "put", Key: k, VC: vc} }
	d := func(k string) Op { return Op{K: "del", Key: k} }
	return [][]Op{
		{p("a", "S")},
		{p("a", "S"), p("b", "S")},
		{d("a")},
		{p("a", "S"), d("a")},
		{p("a", "S"), d("a"), p("a", "S")},
		{d("a"), p("a", "S")},
		{p("a", "S"), p("a", "S")},
		{p("a", "L"), p("b", "L"), d("a")},
		{p("a", "S"), p("a", "H"), p("b", "S"), p("b", "H")}, // restaging with larger values: the size estimate must grow
		{p("a", "S"), p("a", "G"), p("b", "S"), p("b", "G")}, // ... where each restage alone still fits
	}
}

// tinyAlphabet: C01's alphabet for the tiny-file family.
func tinyAlphabet(c Cfg) []Op {
	a := []Op{
		{K: "put", Key: "a", VC: "S"},
		{K: "put", Key: "b", VC: "S"},
		{K: "del", Key: "a"},
		{K: "del", Key: "b"},
		{K: "put", Key: "a", VC: "L", Dev: true},
		{K: "put", Key: "b", VC: "L", Dev: true},
		{K: "put", Key: "a", VC: "E", Dev: true},
		{K: "put", Key: "b", VC: "X", Dev: true},
		{K: "sync", Dev: true},
		{K: "merge", Dev: true},
		{K: "merge", Arg: 1, Dev: true}, // same, scanning the rotated files in descending id order
		{K: "restart", Dev: true},
	}
	for _, body := range batchBodies() {
		a = append(a, Op{K: "batch", Sub: body, Dev: true})
	}
	return a
}

// blockAlphabet: block family (DataFileSize 96 KiB): records landing around block boundaries.
func blockAlphabet(c Cfg) []Op {
	a := []Op{
		{K: "put", Key: "a", VC: "S"},
		{K: "del", Key: "a"},
		{K: "put", Key: "b", VC: "M", Dev: true},
		{K: "put", Key: "a", VC: "E", Dev: true},
		{K: "restart", Dev: true},
		{K: "merge", Dev: true},
		{K: "batch", Sub: []Op{{K: "put", Key: "a", VC: "S"}, {K: "put", Key: "b", VC: "B", Arg: 3}}, Dev: true},
		{K: "batch", Sub: []Op{{K: "put", Key: "a", VC: "S"}, {K: "put", Key: "b", VC: "M"}}, Dev: true}, // a multi-block value as a non-first staged record
		// a staged record that ends 3 bytes before a block end (11 = 3 + the 8 further header bytes of a batch id) with records behind it in the same flush
		{K: "batch", Sub: []Op{{K: "put", Key: "b", VC: "B", Arg: 11}, {K: "put", Key: "a", VC: "S"}}, Dev: true},
	}
	for _, delta := range []int{9, 8, 7, 6, 1, 0, -1} {
		a = append(a, Op{K: "put", Key: "b", VC: "B", Arg: delta, Dev: true})
	}
	return a
}

func tinyCfgs() []Cfg {
	out := cfg1(defaultCfg)
	for _, fs := range []int64{64, 200} {
		c := defaultCfg
		c.FileSize = fs
		out = append(out, c)
	}
	return out
}

// wideCfg: more shards than the implementation's maximum (1024); expensive, used at shallow depth only.
func wideCfg() Cfg {
	c := defaultCfg
	c.Shards = 2048
	return c
}

func blockCfg() Cfg {
	c := defaultCfg
	c.FileSize = 96 * 1024
	return c
}

// oddBlockCfg: a DataFileSize that is not a multiple of the 32 KiB block and smaller than the 3-block value
func oddBlockCfg() Cfg {
	c := defaultCfg
	c.FileSize = 40001
	return c
}

// bothPools adds, for every configuration, the variant in which sync.Pool hands back the oldest object first.
func bothPools(cs ...Cfg) []Cfg {
	out := append([]Cfg{}, cs...)
	for _, c := range cs {
		c.Pool = 1
		out = append(out, c)
	}
	return out
}

// binary keys: keys that end in zero bytes, are prefixes of one another, or start with 0xFF (nothing in the record
// or hint encoding, the index order or the shard hash may treat a byte of a key as special)
var binaryKeys = []string{"k\x00", "k", "\xff\x00\x00"}

func binaryKeyAlphabet(c Cfg) []Op {
	return []Op{
		{K: "put", Key: binaryKeys[0], VC: "S"},
		{K: "put", Key: binaryKeys[1], VC: "S"},
		{K: "put", Key: binaryKeys[2], VC: "S"},
		{K: "del", Key: binaryKeys[0]},
		{K: "del", Key: binaryKeys[1], Dev: true},
		{K: "put", Key: binaryKeys[1], VC: "L", Dev: true},
		{K: "batch", Sub: []Op{{K: "put", Key: binaryKeys[0], VC: "S"}, {K: "del", Key: binaryKeys[1]}, {K: "put", Key: binaryKeys[2], VC: "L"}}, Dev: true},
		{K: "restart", Dev: true},
		{K: "merge", Dev: true},
		{K: "merge", Arg: 1, Dev: true},
	}
}

func binaryKeyLevel(run func(Cfg, []string, []Op, *TaskResult) *Violation) seqLevel {
	mm := defaultCfg
	mm.IO = 1
	return seqLevel{Name: "binary-keys-d4", Cfgs: append(tinyCfgs(), mm), Keys: binaryKeys, Alpha: binaryKeyAlphabet, Depth: 4, Dev: 2, Run: run}
}

// ---- C01 --------------------------------------------------------------------------------------

func runC01(cfg Cfg, keys []string, ops []Op, res *TaskResult) *Violation {
	rot, over := false, false
	v := RunTrace(cfg, keys, ops, res, func(w *World, i int, op Op, ar ApplyResult) *Violation {
		if cls := errClass(ar.Err); cls == "panic" {
			return viol("C01", "panic", "panic:"+op.K, fmt.Sprintf("step %d %s: %s", i, op, panicDetail(ar.Err)))
		}
		if ar.Clause != "" {
			return viol("C01", ar.Clause, ar.Clause+":"+errClass(ar.Err), fmt.Sprintf("step %d %s: %s", i, op, ar.Detail))
		}
		res.Evals++
		if c, d := w.CheckReads(); c != "" {
			return viol("C01", c, c+":after-"+op.K, fmt.Sprintf("step %d %s: %s\nmodel=%s", i, op, d, modelString(w.Model)))
		}
		if ar.Err != nil {
			res.count("unexpected_errors", 1)
			res.count("unexpected_error:"+op.K+":"+errClass(ar.Err), 1)
		}
		if i == len(ops)-1 {
			res.States = append(res.States, w.StateHash())
			_, _, older := w.DB.VerifFiles()
			if len(older) > 0 {
				rot = true
			}
			if len(w.Model) < len(w.Hist) || w.Step > len(w.Model) {
				over = true
			}
		}
		return nil
	})
	if rot {
		res.count("traces_with_rotation", 1)
	}
	if rot && over {
		res.Nontrivial++
	}
	return v
}

// runC01Quiet: the same sequences, but the caller reads nothing until the last operation has returned (the reads of
// the oracle after every step touch read buffers, pooled records and iterators: whatever a write leaves behind for the
// NEXT WRITE to trip over would be refreshed by them). Levels of depth 2..d, since prefixes are not judged here.
func runC01Quiet(cfg Cfg, keys []string, ops []Op, res *TaskResult) *Violation {
	ops = append([]Op{}, ops...)
	for i := range ops {
		if ops[i].K == "batch" {
			ops[i].Arg |= 2 // no Batch.Get between the staging calls either
		}
	}
	v := runC01QuietInner(cfg, keys, ops, res)
	if v != nil {
		v.Detail = fmt.Sprintf("cfg=%s trace=[%s] (quiet: no reads before the end)\n%s", cfg, traceString(ops), v.Detail)
		v.Replay = mustJSON(seqReplay{Engine: "quiet", Prop: "C01", Cfg: cfg, Keys: keys, Ops: ops, Trace: traceString(ops)})
	}
	return v
}

func runC01QuietInner(cfg Cfg, keys []string, ops []Op, res *TaskResult) *Violation {
	return RunTrace(cfg, keys, ops, res, func(w *World, i int, op Op, ar ApplyResult) *Violation {
		if cls := errClass(ar.Err); cls == "panic" {
			return viol("C01", "panic", "panic:"+op.K, fmt.Sprintf("step %d %s (no reads in between): %s", i, op, panicDetail(ar.Err)))
		}
		if ar.Clause != "" {
			return viol("C01", ar.Clause, ar.Clause+":"+errClass(ar.Err), fmt.Sprintf("step %d %s (no reads in between): %s", i, op, ar.Detail))
		}
		if i < len(ops)-1 {
			return nil
		}
		res.Evals++
		res.Nontrivial++
		res.States = append(res.States, w.StateHash())
		if c, d := w.CheckReads(); c != "" {
			return viol("C01", c, c+":quiet-after-"+op.K, fmt.Sprintf("after %d operations without any read in between, last %s: %s\nmodel=%s", len(ops), op, d, modelString(w.Model)))
		}
		return nil
	})
}

func quietLevels(maxDepth int) []seqLevel {
	var out []seqLevel
	for d := 2; d <= maxDepth; d++ {
		out = append(out, seqLevel{Name: fmt.Sprintf("quiet-d%d", d), Cfgs: bothPools(defaultCfg), Keys: keysAB, Alpha: tinyAlphabet, Depth: d, Dev: 2, Run: runC01Quiet})
	}
	return out
}

func init() {
	register(&Check{
		Prop:   "C01",
		Engine: "seq",
		Rule:   "every maximal operation sequence within (depth, deviation bound) over the alphabet is executed once per configuration; a sequence is non-trivial when it rotated at least one data file and overwrote or deleted at least one key",
		Assumptions: []string{
			"key universe {a,b}; value classes S(3B) E(empty) L(30% of DataFileSize) X(>DataFileSize) B(delta: record ends delta bytes before a 32KiB boundary) M(3 blocks)",
			"faults are not injected; a mutation returning an unexpected error is modelled as no effect and counted (unexpected_errors)",
			"sync.Pool is replaced by a deterministic free list, explored in both orders (newest first, oldest first)",
		},
		Tasks: func(tier string) []Task {
			if tier == "quick" {
				return seqTasks("C01", append([]seqLevel{
					{Name: "long-keys-d5", Cfgs: longKeyCfgs(), Keys: c18LongKeys, Alpha: longKeyMergeAlphabet, Depth: 5, Dev: 3, Run: runC01},
					{Name: "same-offset-d6", Cfgs: []Cfg{blockCfg()}, Keys: keysAB, Alpha: sameOffsetAlphabet, Depth: 6, Dev: 6, Run: runC01},
					{Name: "tiny-d3b2", Cfgs: tinyCfgs(), Keys: keysAB, Alpha: tinyAlphabet, Depth: 3, Dev: 2, Run: runC01},
					{Name: "tiny-d4b2", Cfgs: bothPools(defaultCfg), Keys: keysAB, Alpha: tinyAlphabet, Depth: 4, Dev: 2, Run: runC01},
					{Name: "block-d3b2", Cfgs: append(bothPools(blockCfg()), oddBlockCfg()), Keys: keysAB, Alpha: blockAlphabet, Depth: 3, Dev: 2, Run: runC01},
					deleteBatchLevel(runC01, 3),
					binaryKeyLevel(runC01),
					{Name: "many-files-d4", Cfgs: []Cfg{manyFilesCfg()}, Keys: keysAB, Alpha: manyFilesAlphabet, Depth: 4, Dev: 4, Run: runC01},
					{Name: "fault-d3", Cfgs: c01FaultCfgs(), Keys: keysAB, Alpha: c01FaultAlphabet, Depth: 3, Dev: 3, Run: runC01Fault},
				}, quietLevels(4)...))
			}
			bt := blockCfg()
			bt2 := bt
			bt2.Index = 1
			bt3 := bt
			bt3.IO = 1
			return seqTasks("C01", append([]seqLevel{
				{Name: "long-keys-d6", Cfgs: longKeyCfgs(), Keys: c18LongKeys, Alpha: longKeyMergeAlphabet, Depth: 6, Dev: 3, Run: runC01},
				{Name: "same-offset-d7", Cfgs: []Cfg{blockCfg()}, Keys: keysAB, Alpha: sameOffsetAlphabet, Depth: 7, Dev: 7, Run: runC01},
				{Name: "tiny-d4b2", Cfgs: tinyCfgs(), Keys: keysAB, Alpha: tinyAlphabet, Depth: 4, Dev: 2, Run: runC01},
				{Name: "tiny-d5b3", Cfgs: bothPools(defaultCfg), Keys: keysAB, Alpha: tinyAlphabet, Depth: 5, Dev: 3, Split: 2, Run: runC01},
				{Name: "block-d4b3", Cfgs: bothPools(bt, bt2, bt3), Keys: keysAB, Alpha: blockAlphabet, Depth: 4, Dev: 3, Run: runC01},
				{Name: "many-files-d4", Cfgs: []Cfg{manyFilesCfg()}, Keys: keysAB, Alpha: manyFilesAlphabet, Depth: 4, Dev: 4, Run: runC01},
				{Name: "fault-d4", Cfgs: c01FaultCfgs(), Keys: keysAB, Alpha: c01FaultAlphabet, Depth: 4, Dev: 4, Run: runC01Fault},
				binaryKeyLevel(runC01),
			}, quietLevels(5)...))
		},
		Bounds: func(tier string) map[string]any {
			m := map[string]any{}
			if tier == "quick" {
				m["tiny"] = fmt.Sprintf("depth 3 dev<=2 x %d cfgs (%d seq each); depth 4 dev<=2 default cfg (%d seq)", len(tinyCfgs()), countSeq(tinyAlphabet(defaultCfg), 3, 2), countSeq(tinyAlphabet(defaultCfg), 4, 2))
				m["block"] = fmt.Sprintf("depth 3 dev<=2 (%d seq)", countSeq(blockAlphabet(defaultCfg), 3, 2))
			} else {
				m["tiny"] = fmt.Sprintf("depth 4 dev<=2 x %d cfgs (%d seq each); depth 5 dev<=3 default cfg (%d seq)", len(tinyCfgs()), countSeq(tinyAlphabet(defaultCfg), 4, 2), countSeq(tinyAlphabet(defaultCfg), 5, 3))
				m["block"] = fmt.Sprintf("depth 4 dev<=3 x 3 cfgs (%d seq each)", countSeq(blockAlphabet(defaultCfg), 4, 3))
			}
			return m
		},
		Replay: func(raw json.RawMessage) {
			var e struct {
				Engine string `json:"engine"`
			}
			json.Unmarshal(raw, &e)
			if e.Engine == "fault" {
				seqReplayMain(raw, runC01Fault)
				return
			}
			if e.Engine == "quiet" {
				seqReplayMain(raw, runC01Quiet)
				return
			}
			seqReplayMain(raw, runC01)
		},
	})
}

// ---- a failed operation is not a successful write ---------------------------------------------------------------
// "Get returns the bytes of the most recent SUCCESSFUL Put ...": for every history of the level, every I/O call of the
// LAST operation fails once (EIO; for writes also a short write). If the operation then reports an error, every read
// path still shows the mapping before it; if it reports success, the mapping after it. A committed batch, two further writes and a
// restart follow: the instance keeps working, the directory opens, and the recovered mapping is the live one - except
// that the failed operation itself may or may not have reached the log (its write may have succeeded before a later
// call failed): both are accepted after the restart.
func runC01Fault(cfg Cfg, keys []string, ops []Op, res *TaskResult) *Violation {
	hist, last := ops[:len(ops)-1], ops[len(ops)-1]
	if last.K == "batch" && cfg.FileSize < 1000 {
		// a staging call that fails leaves the caller with a half-staged batch and no way to discard it (there is no
		// rollback; Commit is the only call that releases the database lock): only faults INSIDE Commit are judged, under
		// the configuration in which staging performs no I/O (the batch does not overflow the file)
		return nil
	}
	n := -1
	for k := -1; n < 0 || k < n; k++ {
		for _, short := range []bool{false, true} {
			if k < 0 && short {
				continue
			}
			beginExecution()
			w := NewWorld(cfg, keys)
			res.Execs++
			if err := w.Open(); err != nil {
				w.Destroy()
				return nil
			}
			ok := true
			for _, op := range hist {
				if ar := w.Apply(op); ar.Err != nil || w.Dead {
					ok = false
					break
				}
				res.Transitions++
			}
			if !ok {
				w.Destroy()
				return nil
			}
			before := copyModel(w.Model)
			calls, injectedAt, wasWrite := 0, "", false
			iorec.Before = func(op, path, path2 string, nn int64) error {
				if op == "read" {
					return nil // reads of the operation are not faulted here (C06 does that for Merge)
				}
				calls++
				if calls-1 == k {
					wasWrite = op == "write"
					if short {
						if op != "write" || nn < 2 {
							return nil
						}
						injectedAt = fmt.Sprintf("call #%d %s %s storing %d of %d bytes", k, op, filepath.Base(path), nn/2, nn)
						return &iorec.ShortWrite{N: int(nn / 2)}
					}
					injectedAt = fmt.Sprintf("call #%d %s %s", k, op, filepath.Base(path))
					return &os.PathError{Op: op, Path: path, Err: syscall.EIO}
				}
				return nil
			}
			ar := w.Apply(last)
			iorec.Before = nil
			res.Transitions++
			if k < 0 {
				n = calls
				w.Destroy()
				if ar.Err != nil {
					return nil
				}
				continue
			}
			if injectedAt == "" {
				w.Destroy()
				continue // (short write asked for a call that is not a write)
			}
			_ = wasWrite
			fail := func(clause, detail string) *Violation {
				w.Destroy()
				return &Violation{Prop: "C01", Clause: clause, Sig: clause + ":" + last.K, Detail: fmt.Sprintf("cfg=%s trace=[%s] with %s failing during the last operation\n%s", cfg, traceString(ops), injectedAt, detail),
					Replay: mustJSON(seqReplay{Engine: "fault", Prop: "C01", Cfg: cfg, Keys: keys, Ops: ops, Trace: traceString(ops), Extra: map[string]int{"fault_at": k}})}
			}
			if errClass(ar.Err) == "panic" {
				return fail("fault-panic", fmt.Sprintf("%s panicked: %s", last, panicDetail(ar.Err)))
			}
			res.Evals++
			res.count("faults_injected", 1)
			if w.Dead || w.DB == nil {
				w.Destroy()
				continue
			}
			if c, d := w.CheckReads(); c != "" {
				return fail("fault-mapping:"+c, fmt.Sprintf("%s returned %s; afterwards: %s\nmapping before the operation: %s", last, errClass(ar.Err), d, modelString(before)))
			}
			// the instance keeps working: a committed batch on key a, then a restart. The failed operation may have reached
			// the log if it was a plain Put / Delete (its write may have succeeded before a later call failed): then both
			// the mapping with and without it are accepted after the restart. A batch whose Commit failed has no sealing
			// record: it stays invisible.
			var alt map[string]string
			if false && ar.Err != nil && last.K != "batch" { // (no longer accepted: a failed operation is undone in the log, see repair 54)
				alt = copyModel(before)
				switch last.K {
				case "put":
					alt[last.Key] = string(w.lastValue)
				case "del":
					delete(alt, last.Key)
				}
			}
			follow := Op{K: "batch", Sub: []Op{{K: "put", Key: "a", VC: "S"}}}
			ar2 := w.Apply(follow)
			if errClass(ar2.Err) == "panic" {
				return fail("fault-then-panic", fmt.Sprintf("%s returned %s; the next %s panicked: %s", last, errClass(ar.Err), follow, panicDetail(ar2.Err)))
			}
			if ar2.Err != nil || w.Dead || w.DB == nil {
				res.count("later_write_refused", 1) // refusing further writes after an I/O error is an error return, not a wrong answer
				w.Destroy()
				continue
			}
			if c, d := w.CheckReads(); c != "" {
				return fail("fault-then-mapping:"+c, fmt.Sprintf("%s returned %s; after the next %s: %s", last, errClass(ar.Err), follow, d))
			}
			if alt != nil {
				alt["a"] = w.Model["a"]
			}
			if err := w.Close(); err != nil {
				res.count("close_failed_after_fault", 1)
				w.Destroy()
				continue
			}
			if err := w.Open(); err != nil {
				return fail("fault-restart", fmt.Sprintf("%s returned %s; after a committed batch and a clean Close, Open fails: %s", last, errClass(ar.Err), panicDetail(err)))
			}
			if c, d := w.CheckReads(); c != "" {
				okAlt := false
				if alt != nil {
					live := w.Model
					w.Model = alt
					if c2, _ := w.CheckReads(); c2 == "" {
						okAlt = true
					} else {
						w.Model = live
					}
				}
				if !okAlt {
					return fail("fault-restart-mapping:"+c, fmt.Sprintf("%s returned %s; after a committed batch [put a] and a restart: %s\nmapping before the restart: %s", last, errClass(ar.Err), d, modelString(w.Model)))
				}
			}
			for _, op := range []Op{{K: "put", Key: "a", VC: "S"}, {K: "put", Key: "b", VC: "S"}} {
				if ar3 := w.Apply(op); ar3.Err != nil || w.Dead {
					return fail("fault-then-write", fmt.Sprintf("%s returned %s; after the restart %s fails: %s", last, errClass(ar.Err), op, panicDetail(ar3.Err)))
				}
				if c, d := w.CheckReads(); c != "" {
					return fail("fault-then-mapping:"+c, fmt.Sprintf("%s returned %s; after the restart and %s: %s", last, errClass(ar.Err), op, d))
				}
			}
			w.Destroy()
		}
	}
	res.Nontrivial++
	return nil
}

func c01FaultCfgs() []Cfg {
	al := defaultCfg
	al.Sync = 1 // Always: every Put / Delete also flushes
	mm := defaultCfg
	mm.IO = 1
	roomy := defaultCfg
	roomy.FileSize = 1000 // batches do not overflow: all their I/O happens inside Commit
	return []Cfg{defaultCfg, al, mm, roomy}
}

func c01FaultAlphabet(c Cfg) []Op {
	return []Op{
		{K: "put", Key: "a", VC: "S"},
		{K: "put", Key: "b", VC: "L"},
		{K: "del", Key: "a"},
		{K: "put", Key: "b", VC: "X"}, // rotates
		{K: "batch", Sub: []Op{{K: "put", Key: "a", VC: "S"}, {K: "del", Key: "b"}}},
		{K: "batch", Arg: 1, Sub: []Op{{K: "put", Key: "b", VC: "S"}, {K: "del", Key: "a"}}}, // BatchOptions.Sync: Commit also flushes
	}
}

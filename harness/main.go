package main

import (
	"encoding/json"
	"flag"
	"fmt"
	"os"
	"os/signal"
	"runtime/debug"
	"syscall"
)

func main() {
	prop := flag.String("prop", "", "property id (C01..C20)")
	tier := flag.String("tier", "quick", "quick | thorough")
	worker := flag.Bool("worker", false, "worker mode (internal)")
	replay := flag.String("replay", "", "replay artefact to re-execute")
	procClient := flag.Bool("procclient", false, "child-process client of the C16 check (internal)")
	trace := flag.String("trace", "", "debug: run one trace verbosely, e.g. \"put a S; merge; restart\"")
	fsize := flag.Int64("fs", 130, "debug: DataFileSize for -trace")
	iot := flag.Int("io", 0, "debug: FileIOType for -trace")
	idx := flag.Int("index", 3, "debug: IndexType for -trace")
	flag.Parse()
	debug.SetPanicOnFault(true)
	debug.SetGCPercent(400)
	// soft limit: the collector runs before the heap passes 3 GiB whatever GOGC says (under MMap the code under test
	// may read a whole 1 GiB mapped hint file into memory during Backup)
	debug.SetMemoryLimit(3 << 30)
	defer cleanupScratch()
	sig := make(chan os.Signal, 1)
	signal.Notify(sig, syscall.SIGINT, syscall.SIGTERM)
	go func() {
		<-sig
		cleanupScratch()
		os.Exit(130)
	}()

	if *procClient {
		procClientMain()
		return
	}
	if *trace != "" {
		c := defaultCfg
		c.FileSize, c.IO, c.Index = *fsize, byte(*iot), int8(*idx)
		debugTrace(c, *trace)
		cleanupScratch()
		return
	}
	if *replay != "" {
		data, err := os.ReadFile(*replay)
		if err != nil {
			fmt.Fprintln(os.Stderr, err)
			os.Exit(2)
		}
		var v Violation
		if err := json.Unmarshal(data, &v); err != nil {
			fmt.Fprintln(os.Stderr, err)
			os.Exit(2)
		}
		c := checks[v.Prop]
		if c == nil || c.Replay == nil {
			fmt.Fprintln(os.Stderr, "no replay support for", v.Prop)
			os.Exit(2)
		}
		c.Replay(v.Replay)
		cleanupScratch()
		return
	}
	c := checks[*prop]
	if c == nil {
		fmt.Fprintf(os.Stderr, "unknown property %q\n", *prop)
		os.Exit(2)
	}
	if *tier != "quick" && *tier != "thorough" {
		fmt.Fprintf(os.Stderr, "unknown tier %q\n", *tier)
		os.Exit(2)
	}
	if *worker {
		workerMain(c, *tier)
		cleanupScratch()
		return
	}
	code := coordinate(c, *tier)
	cleanupScratch()
	os.Exit(code)
}

// Package sched is the cooperative scheduler core behind the vsync / vatomic shims.
//
// Three modes:
//
//	ModeOff   the shims are pure pass-through (real sync primitives, nothing recorded).
//	ModeSeq   one goroutine drives the code under test; the lock *model* is maintained so that
//	          self-deadlocks and unlock-of-unlocked are turned into recoverable panics instead of
//	          hangs / fatal runtime errors.
//	ModeCtl   2..MaxThreads controlled threads; exactly one holds the baton; every lock acquire and
//	          every atomic is a schedule point at which the explorer may switch threads.
//
// Everything that touches scheduler state is //go:norace and allocation free: the baton is passed
// with plain loads/stores (spinning on runtime.Gosched), so that a -race build sees only the
// happens-before edges of the program's own (real) synchronisation and none from the scheduler.
package sched

import (
	"runtime"
	"sync"
)

const (
	ModeOff = 0
	ModeSeq = 1
	ModeCtl = 2
)

const (
	MaxThreads = 8
	MaxPoints  = 1 << 13 // logged branching points per execution
	seqOwner   = 100     // pseudo thread id of the single goroutine in ModeSeq
)

// LockState is the model of one Mutex / RWMutex.
type LockState struct {
	WPend   int8 // 0 = none, else (thread id + 1) that announced a write lock (pending or holding)
	Writer  int8 // 0 = none, else (thread id + 1) holding the write lock
	Readers int16
}

const (
	waitNone  = 0
	waitW1    = 1 // wants to announce a write lock: enabled iff WPend == 0
	waitW2    = 2 // announced, waits for readers to drain: enabled iff Readers == 0
	waitR     = 3 // wants a read lock: enabled iff WPend == 0
	stUnused  = 0
	stRun     = 1
	stDone    = 2
	AbortNone = 0
	AbortDead = 1 // deadlock: no enabled thread, some unfinished
	AbortLive = 2 // horizon exceeded
	AbortDiv  = 3 // replay divergence (choice out of range)
)

type thread struct {
	status int8
	mode   int8
	lock   *LockState
}

// MapPerm selects the iteration order of the map ranges the instrumenter owns (see verifMapOrder).
var MapPerm int

var (
	Mode int32

	cur, turn int32
	nthreads  int32
	th        [MaxThreads]thread
	aborting  bool
	abortWhy  int32
	steps     int64
	horizon   int64 = 20000

	prefix    [MaxPoints]int8
	prefixLen int32
	logMask   [MaxPoints]uint8
	logRunner [MaxPoints]int8
	logChoice [MaxPoints]int8
	logN      int32
	totalPts  int64

	// Clock is a logical clock advanced by Tick(); used by harness thread bodies for call/return stamps.
	clock int64
)

type abortSentinel struct{}

// IsAbort reports whether a recovered panic value is the scheduler's abort signal.
func IsAbort(r any) bool { _, ok := r.(abortSentinel); return ok }

//go:norace
func GetMode() int32 { return Mode }

//go:norace
func SetMode(m int32) { Mode = m }

//go:norace
func Cur() int32 {
	if Mode == ModeCtl {
		return cur
	}
	return 0
}

//go:norace
func Tick() int64 { clock++; return clock }

//go:norace
func enabled(i int32) bool {
	t := &th[i]
	if t.status != stRun {
		return false
	}
	switch t.mode {
	case waitW1, waitR:
		return t.lock.WPend == 0
	case waitW2:
		return t.lock.Readers == 0
	}
	return true
}

//go:norace
func enabledMask() uint8 {
	var m uint8
	for i := int32(0); i < nthreads; i++ {
		if enabled(i) {
			m |= 1 << uint(i)
		}
	}
	return m
}

//go:norace
func popcount(m uint8) int32 {
	var c int32
	for ; m != 0; m &= m - 1 {
		c++
	}
	return c
}

// choose picks the next thread among mask. me is the running thread (or -1). Canonical order:
// me first if enabled, then ascending ids.
//
//go:norace
func choose(me int32, mask uint8) int32 {
	cnt := popcount(mask)
	if cnt == 1 {
		for i := int32(0); i < nthreads; i++ {
			if mask&(1<<uint(i)) != 0 {
				return i
			}
		}
	}
	meEnabled := me >= 0 && mask&(1<<uint(me)) != 0
	var k int32
	if logN < prefixLen {
		k = int32(prefix[logN])
		if k >= cnt || k < 0 {
			startAbort(AbortDiv)
			k = 0
		}
	}
	if logN >= MaxPoints {
		startAbort(AbortLive)
		k = 0
	} else {
		logMask[logN] = mask
		if meEnabled {
			logRunner[logN] = int8(me)
		} else {
			logRunner[logN] = -1
		}
		logChoice[logN] = int8(k)
		logN++
	}
	// resolve k-th in canonical order
	if meEnabled {
		if k == 0 {
			return me
		}
		k--
	}
	for i := int32(0); i < nthreads; i++ {
		if mask&(1<<uint(i)) == 0 || (meEnabled && i == me) {
			continue
		}
		if k == 0 {
			return i
		}
		k--
	}
	return me // unreachable
}

//go:norace
func startAbort(why int32) {
	if !aborting {
		aborting = true
		abortWhy = why
	}
}

//go:norace
func waitTurn(me int32) {
	for turn != me {
		runtime.Gosched()
	}
	if aborting {
		panic(abortSentinel{})
	}
}

// point is a schedule point of the running thread, which wants (lock, mode) next.
//
//go:norace
func point(lock *LockState, mode int8) {
	me := cur
	if aborting {
		return
	}
	th[me].lock, th[me].mode = lock, mode
	steps++
	totalPts++
	if steps > horizon {
		startAbort(AbortLive)
		panic(abortSentinel{})
	}
	mask := enabledMask()
	if mask == 0 {
		startAbort(AbortDead)
		panic(abortSentinel{})
	}
	next := choose(me, mask)
	if aborting {
		panic(abortSentinel{})
	}
	if next != me {
		cur = next
		turn = next
		waitTurn(me)
	}
	th[me].lock, th[me].mode = nil, waitNone
}

// Yield is a schedule point with no blocking condition (atomics, I/O calls, harness marks).
//
//go:norace
func Yield() {
	if Mode != ModeCtl {
		return
	}
	point(nil, waitNone)
}

//go:norace
func owner() int8 {
	if Mode == ModeCtl {
		return int8(cur) + 1
	}
	return seqOwner
}

// AcquireW models Lock(). Returns false (ModeSeq only) if the lock is unavailable, i.e. the single
// goroutine would block forever.
//
//go:norace
func AcquireW(l *LockState) bool {
	if Mode == ModeCtl && !aborting {
		point(l, waitW1)
		l.WPend = owner()
		if l.Readers != 0 {
			point(l, waitW2)
		}
		l.Writer = l.WPend
		return true
	}
	if l.WPend != 0 || l.Readers != 0 {
		return false
	}
	l.WPend = owner()
	l.Writer = l.WPend
	return true
}

//go:norace
func AcquireR(l *LockState) bool {
	if Mode == ModeCtl && !aborting {
		point(l, waitR)
		l.Readers++
		return true
	}
	if l.WPend != 0 {
		return false
	}
	l.Readers++
	return true
}

// ReleaseW models Unlock(); false = the lock was not write-held (a fatal error in the real runtime).
//
//go:norace
func ReleaseW(l *LockState) bool {
	if l.Writer == 0 {
		return false
	}
	l.Writer, l.WPend = 0, 0
	return true
}

//go:norace
func ReleaseR(l *LockState) bool {
	if l.Readers <= 0 {
		return false
	}
	l.Readers--
	return true
}

//go:norace
func TryW(l *LockState) bool {
	if Mode == ModeCtl && !aborting {
		point(nil, waitNone)
	}
	if l.WPend != 0 || l.Readers != 0 {
		return false
	}
	l.WPend = owner()
	l.Writer = l.WPend
	return true
}

//go:norace
func TryR(l *LockState) bool {
	if Mode == ModeCtl && !aborting {
		point(nil, waitNone)
	}
	if l.WPend != 0 {
		return false
	}
	l.Readers++
	return true
}

//go:norace
func Aborting() bool { return aborting }

// ---------------------------------------------------------------------------------------------
// Driver side (called by the harness between executions, from the uncontrolled main goroutine).

// Result of one controlled execution.
type Result struct {
	Abort    int32    // AbortNone / AbortDead / AbortLive / AbortDiv
	Panics   []string // per thread, "" if none
	N        int      // logged branching points
	Masks    []uint8
	Runners  []int8
	Choices  []int8
	Points   int64 // all schedule points (incl. non-branching)
	Blocked  []string
	Finished bool
}

//go:norace
func reset(n int, pfx []int8) {
	nthreads = int32(n)
	for i := range th {
		th[i] = thread{}
	}
	for i := 0; i < n; i++ {
		th[i].status = stRun
	}
	aborting, abortWhy = false, AbortNone
	steps = 0
	logN = 0
	totalPts = 0
	clock = 0
	prefixLen = int32(len(pfx))
	copy(prefix[:], pfx)
	cur, turn = -1, -1
}

//go:norace
func start() {
	mask := enabledMask()
	first := choose(-1, mask)
	cur = first
	turn = first
}

//go:norace
func exitThread() {
	me := cur
	th[me].status = stDone
	th[me].lock, th[me].mode = nil, waitNone
	if aborting {
		// hand the baton to any unfinished thread so it can unwind too
		for i := int32(0); i < nthreads; i++ {
			if th[i].status == stRun {
				cur = i
				turn = i
				return
			}
		}
		turn = -2
		return
	}
	mask := enabledMask()
	if mask == 0 {
		for i := int32(0); i < nthreads; i++ {
			if th[i].status == stRun {
				startAbort(AbortDead)
				cur = i
				turn = i
				return
			}
		}
		turn = -2
		return
	}
	next := choose(-1, mask)
	cur = next
	turn = next
}

//go:norace
func snapshotLog(r *Result) {
	r.Abort = abortWhy
	r.N = int(logN)
	r.Masks = append(r.Masks[:0], logMask[:logN]...)
	r.Runners = append(r.Runners[:0], logRunner[:logN]...)
	r.Choices = append(r.Choices[:0], logChoice[:logN]...)
	r.Points = totalPts
}

// SetHorizon sets the maximum number of schedule points of one execution.
//
//go:norace
func SetHorizon(h int64) { horizon = h }

// Run executes fns as controlled threads following the choice prefix pfx (default choice 0 after it).
func Run(pfx []int8, fns ...func()) *Result {
	n := len(fns)
	if n > MaxThreads {
		panic("sched: too many threads")
	}
	res := &Result{Panics: make([]string, n)}
	reset(n, pfx)
	SetMode(ModeCtl)
	var wg sync.WaitGroup
	for i := range fns {
		wg.Add(1)
		go func(i int) {
			defer wg.Done()
			func() {
				defer func() {
					if r := recover(); r != nil {
						if !IsAbort(r) {
							res.Panics[i] = panicString(r)
						}
					}
				}()
				waitTurn(int32(i))
				fns[i]()
			}()
			exitThread()
		}(i)
	}
	start()
	wg.Wait()
	SetMode(ModeOff)
	snapshotLog(res)
	res.Finished = res.Abort == AbortNone
	return res
}

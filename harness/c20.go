package main

import (
	"encoding/json"
	"fmt"
	"os"
	"path/filepath"
)

// C20 — a backup taken at any time opens to the state at the time of the backup.

func c20Alphabet(c Cfg) []Op {
	a := []Op{
		{K: "put", Key: "a", VC: "S"},
		{K: "put", Key: "b", VC: "S"},
		{K: "del", Key: "a"},
		{K: "backup"},
		{K: "put", Key: "a", VC: "L", Dev: true},
		{K: "put", Key: "b", VC: "L", Dev: true},
		{K: "put", Key: "b", VC: "M", Dev: true},
		{K: "put", Key: "a", VC: "Z", Dev: true},
		{K: "merge", Dev: true},
		{K: "restart", Dev: true},
		{K: "batch", Sub: []Op{{K: "put", Key: "a", VC: "S"}, {K: "put", Key: "b", VC: "S"}}, Dev: true},
		{K: "batch", Sub: []Op{{K: "put", Key: "a", VC: "L"}, {K: "del", Key: "b"}, {K: "put", Key: "b", VC: "L"}}, Dev: true},
	}
	return a
}

// doBackup runs Backup on the open source and verifies the copy. Returns a violation or nil.
func doBackup(w *World, n int, res *TaskResult) *Violation {
	dst := filepath.Join(w.Root, fmt.Sprintf("backup%d", n))
	before := w.DumpDB()
	if before.Err != "" || !sameMap(before.KV, w.Model) {
		return nil // C01's business
	}
	err := w.guard(func() error { return w.DB.Backup(dst) })
	if err != nil {
		return viol("C20", "backup-error", "backup-error:"+errClass(err), "Backup returned "+panicDetail(err))
	}
	if _, err := os.Stat(filepath.Join(dst, ".lock")); err == nil {
		return viol("C20", "lock-copied", "lock-copied", "the backup directory contains the source's .lock file")
	}
	// the copy opens as an independent database while the source is still open
	cp := &World{Cfg: w.Cfg, Root: dst + "-root", Dir: dst, Model: map[string]string{}, Keys: w.Keys, Cnt: map[string]int64{}, Hist: map[string]map[string]bool{}}
	defer func() {
		if cp.DB != nil && !cp.Dead {
			cp.Close()
		}
	}()
	if err := cp.Open(); err != nil {
		return viol("C20", "copy-open", "copy-open:"+errClass(err), "opening the backup while the source is open: "+panicDetail(err))
	}
	after := cp.DumpDB()
	res.Evals++
	if !dumpEqual(before, after) {
		return viol("C20", "copy-differs", "copy-differs", fmt.Sprintf("source at Backup time: %s\n backup opened:        %s", before, after))
	}
	// the copy is independent: a write to it does not show in the source
	cp.guard(func() error { return cp.DB.Put([]byte("a"), []byte("copy-only")) })
	if err := cp.Close(); err != nil {
		return viol("C20", "copy-close", "copy-close", "closing the backup: "+panicDetail(err))
	}
	// the source is unaffected
	if c, d := w.CheckReads(); c != "" {
		return viol("C20", "source-affected:"+c, "source-affected:"+c, "source after Backup: "+d)
	}
	return nil
}

func runC20(cfg Cfg, keys []string, ops []Op, res *TaskResult) *Violation {
	backups := 0
	for _, o := range ops {
		if o.K == "backup" {
			backups++
		}
	}
	if backups == 0 || backups > 2 {
		return nil // enumerated by the generic enumerator; only sequences with 1..2 backups are C20's
	}
	// after the last backup: at least one further write incl. a multi-block put, then a restart
	full := append(append([]Op{}, ops...), Op{K: "put", Key: "b", VC: "M"}, Op{K: "put", Key: "a", VC: "S"}, Op{K: "restart"})
	n := 0
	hadRot, rotAtBackup := false, false
	v := RunTrace(cfg, keys, full, res, func(w *World, i int, op Op, ar ApplyResult) *Violation {
		if errClass(ar.Err) == "panic" {
			if n > 0 {
				return viol("C20", "source-panic-after-backup", "source-panic-after-backup:"+op.K, fmt.Sprintf("step %d %s after a Backup: %s", i, op, panicDetail(ar.Err)))
			}
			return nil
		}
		if ar.Clause != "" {
			if n > 0 {
				return viol("C20", "source-"+ar.Clause, "source-"+ar.Clause, fmt.Sprintf("step %d %s after a Backup: %s", i, op, ar.Detail))
			}
			return nil
		}
		if n > 0 {
			res.Evals++
			if c, d := w.CheckReads(); c != "" {
				return viol("C20", "source-affected:"+c, "source-affected:"+c, fmt.Sprintf("step %d %s after a Backup: %s\nmodel=%s", i, op, d, modelString(w.Model)))
			}
		}
		if i == len(full)-1 {
			res.States = append(res.States, w.StateHash())
			_, _, older := w.DB.VerifFiles()
			hadRot = len(older) > 0
		}
		return nil
	}, func(w *World, i int, op Op) (*Violation, bool) {
		if op.K != "backup" {
			return nil, false
		}
		n++
		if _, _, older := w.DB.VerifFiles(); len(older) > 0 {
			rotAtBackup = true
		}
		v := doBackup(w, n, res)
		if v != nil {
			v.Detail = fmt.Sprintf("step %d backup #%d: %s", i, n, v.Detail)
		}
		return v, true
	})
	if hadRot && rotAtBackup {
		res.Nontrivial++
	}
	return v
}

func c20Cfgs(tier string) []Cfg {
	mm := defaultCfg
	mm.IO = 1
	out := []Cfg{defaultCfg, mm}
	if tier == "thorough" {
		for _, ix := range []int8{1, 2} {
			c := defaultCfg
			c.Index = ix
			out = append(out, c)
			c.IO = 1
			out = append(out, c)
		}
	}
	return out
}

func init() {
	register(&Check{
		Prop:   "C20",
		Engine: "seq",
		Rule:   "operation sequences with Backup at every position (1..2 backups per sequence), under both I/O back-ends; each Backup is verified (returns nil, no .lock, copy opens while the source is open, dump equal to the source's dump at the call, copy writable independently); then the source's own reference-map oracle through further writes incl. a 3-block Put and a restart. non-trivial = the source had rotated files when a Backup was taken",
		Assumptions: []string{
			"SIGBUS/SIGSEGV on a mapping is turned into a recoverable panic (debug.SetPanicOnFault) and reported as a violation",
		},
		Tasks: func(tier string) []Task {
			d, b := 4, 2
			if tier == "thorough" {
				d, b = 5, 2
			}
			return seqTasks("C20", []seqLevel{{Name: fmt.Sprintf("d%db%d", d, b), Cfgs: c20Cfgs(tier), Keys: keysAB, Alpha: c20Alphabet, Depth: d, Dev: b, Run: runC20}})
		},
		Bounds: func(tier string) map[string]any {
			d, b := 4, 2
			if tier == "thorough" {
				d, b = 5, 2
			}
			return map[string]any{"depth": d, "deviation_bound": b, "configs": len(c20Cfgs(tier)), "sequences_per_config_before_filter": countSeq(c20Alphabet(defaultCfg), d, b)}
		},
		Replay: func(raw json.RawMessage) { seqReplayMain(raw, runC20) },
	})
}

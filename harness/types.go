package main

import (
	"encoding/json"
	"fmt"
	"hash/fnv"
	"sort"
	"strings"
)

// Cfg is one database configuration.
type Cfg struct {
	Index    int8  `json:"index"`  // 1 BTree 2 SkipList 3 HashMap
	Shards   int   `json:"shards"` //
	IO       byte  `json:"io"`     // 0 Standard 1 MMap
	FileSize int64 `json:"file_size"`
	Sync     byte  `json:"sync"` // 0 No 1 Always 2 Threshold
	BPS      uint  `json:"bps"`
	Pool     byte  `json:"pool,omitempty"` // order in which sync.Pool hands records back: 0 newest first, 1 oldest first
}

func (c Cfg) String() string {
	idx := map[int8]string{1: "btree", 2: "skiplist", 3: "hashmap"}[c.Index]
	io := map[byte]string{0: "std", 1: "mmap"}[c.IO]
	sy := map[byte]string{0: "nosync", 1: "always", 2: fmt.Sprintf("thr%d", c.BPS)}[c.Sync]
	pool := map[byte]string{0: "", 1: "/pool-fifo"}[c.Pool]
	return fmt.Sprintf("%s/sh%d/%s/fs%d/%s%s", idx, c.Shards, io, c.FileSize, sy, pool)
}

var defaultCfg = Cfg{Index: 3, Shards: 16, IO: 0, FileSize: 130, Sync: 0, BPS: 64}

// cfg1 returns the configurations that differ from base in at most one dimension.
func cfg1(base Cfg) []Cfg {
	out := []Cfg{base}
	for _, ix := range []int8{1, 2, 3} {
		if ix != base.Index {
			c := base
			c.Index = ix
			out = append(out, c)
		}
	}
	for _, sh := range []int{1, 2, 3, 16} {
		if sh != base.Shards {
			c := base
			c.Shards = sh
			out = append(out, c)
		}
	}
	if base.IO == 0 {
		c := base
		c.IO = 1
		out = append(out, c)
	}
	for _, sy := range []byte{0, 1, 2} {
		if sy != base.Sync {
			c := base
			c.Sync = sy
			out = append(out, c)
		}
	}
	return out
}

// Op is one symbolic operation of a trace.
type Op struct {
	K   string `json:"k"`             // put del sync merge restart batch backup ...
	Key string `json:"key,omitempty"` // key
	VC  string `json:"vc,omitempty"`  // value class S E L X B M
	Arg int    `json:"arg,omitempty"` // class parameter (B: delta) / restart cfg index / ...
	Sub []Op   `json:"sub,omitempty"` // batch body
	Dev bool   `json:"-"`             // deviant symbol
}

func (o Op) String() string {
	var b strings.Builder
	b.WriteString(o.K)
	if o.Key != "" || o.VC != "" || o.Arg != 0 {
		b.WriteString("(")
		b.WriteString(o.Key)
		if o.VC != "" {
			b.WriteString("," + o.VC)
		}
		if o.Arg != 0 {
			fmt.Fprintf(&b, ",%d", o.Arg)
		}
		b.WriteString(")")
	}
	if len(o.Sub) > 0 {
		b.WriteString("[")
		for i, s := range o.Sub {
			if i > 0 {
				b.WriteString(" ")
			}
			b.WriteString(s.String())
		}
		b.WriteString("]")
	}
	return b.String()
}

func traceString(ops []Op) string {
	s := make([]string, len(ops))
	for i, o := range ops {
		s[i] = o.String()
	}
	return strings.Join(s, "; ")
}

// Violation is one property violation found by a check.
type Violation struct {
	Prop   string          `json:"property"`
	Clause string          `json:"clause"` // which oracle clause failed (stable identifier)
	Sig    string          `json:"sig"`    // narrow signature used for known-finding matching
	Detail string          `json:"detail"`
	Replay json.RawMessage `json:"replay"` // everything needed to re-execute
	Known  string          `json:"known,omitempty"`
}

// TaskResult is what a worker returns for one task.
type TaskResult struct {
	ID          int              `json:"id"`
	Execs       int64            `json:"execs"`
	Transitions int64            `json:"transitions"`
	Evals       int64            `json:"evals"`
	Nontrivial  int64            `json:"nontrivial"`
	States      []uint64         `json:"states,omitempty"`
	Outcomes    []uint64         `json:"outcomes,omitempty"`
	Violations  []Violation      `json:"violations,omitempty"`
	Counters    map[string]int64 `json:"counters,omitempty"`
	Samples     []string         `json:"samples,omitempty"`
	Err         string           `json:"err,omitempty"` // harness error (exit 2)
	Partial     bool             `json:"partial,omitempty"`
}

func (r *TaskResult) count(name string, n int64) {
	if r.Counters == nil {
		r.Counters = map[string]int64{}
	}
	r.Counters[name] += n
}

func hash64(parts ...string) uint64 {
	h := fnv.New64a()
	for _, p := range parts {
		h.Write([]byte(p))
		h.Write([]byte{0})
	}
	return h.Sum64()
}

func sortedKeys[V any](m map[string]V) []string {
	ks := make([]string, 0, len(m))
	for k := range m {
		ks = append(ks, k)
	}
	sort.Strings(ks)
	return ks
}

func mustJSON(v any) json.RawMessage {
	b, err := json.Marshal(v)
	if err != nil {
		panic(err)
	}
	return b
}

package main

import (
	"fmt"
	"os"
	"path/filepath"
	"sort"
	"strings"

	"github.com/XiXi-2024/xixi-kv/verifrt/iorec"
)

// ---- CRASH engine ------------------------------------------------------------------------------
// A workload runs once with the I/O recorder attached. After every intercepted I/O event (inside the
// operations of interest) the directory pair (data dir, merge dir) is snapshotted into memory: that
// is the disk a process death at that instant leaves behind. Power loss additionally cuts the
// not-yet-synced tail of files to every admissible length. Each image is materialised, recovered
// with the real Open and compared with the reference states S_j allowed by the acknowledgement /
// durability window.

// Snap is an in-memory image of the world root (relative path -> content).
type Snap struct {
	Files map[string][]byte
	Dirs  map[string]bool
}

func takeSnap(root string) *Snap {
	s := &Snap{Files: map[string][]byte{}, Dirs: map[string]bool{}}
	filepath.Walk(root, func(p string, info os.FileInfo, err error) error {
		if err != nil || p == root {
			return nil
		}
		rel, _ := filepath.Rel(root, p)
		if strings.HasPrefix(rel, "backup") || strings.HasPrefix(rel, "img") {
			return filepath.SkipDir
		}
		if info.IsDir() {
			s.Dirs[rel] = true
			return nil
		}
		if info.Size() >= 1<<20 {
			// MMap file: keep the data extent only (the rest is a hole), remember the physical size
			data, _ := readExtent(p)
			s.Files[rel] = data
			s.Files[rel+"\x00size"] = []byte(fmt.Sprint(info.Size()))
			return nil
		}
		data, _ := os.ReadFile(p)
		s.Files[rel] = data
		return nil
	})
	return s
}

func readExtent(p string) ([]byte, error) {
	f, err := os.Open(p)
	if err != nil {
		return nil, err
	}
	defer f.Close()
	ext := dataExtent(f)
	buf := make([]byte, ext)
	if ext > 0 {
		if _, err := f.ReadAt(buf, 0); err != nil {
			return nil, err
		}
	}
	// trailing zero bytes of the last page are not data
	n := len(buf)
	for n > 0 && buf[n-1] == 0 {
		n--
	}
	return buf[:n], nil
}

func (s *Snap) clone() *Snap {
	c := &Snap{Files: make(map[string][]byte, len(s.Files)), Dirs: make(map[string]bool, len(s.Dirs))}
	for k, v := range s.Files {
		c.Files[k] = v
	}
	for k := range s.Dirs {
		c.Dirs[k] = true
	}
	return c
}

func (s *Snap) hash() uint64 {
	var parts []string
	for _, k := range sortedKeys(s.Files) {
		parts = append(parts, k, string(s.Files[k]))
	}
	ds := make([]string, 0, len(s.Dirs))
	for d := range s.Dirs {
		ds = append(ds, d)
	}
	sort.Strings(ds)
	parts = append(parts, ds...)
	return hash64(parts...)
}

func (s *Snap) materialize(root string) error {
	os.RemoveAll(root)
	if err := os.MkdirAll(root, 0o755); err != nil {
		return err
	}
	for d := range s.Dirs {
		if err := os.MkdirAll(filepath.Join(root, d), 0o755); err != nil {
			return err
		}
	}
	for rel, data := range s.Files {
		if strings.HasSuffix(rel, "\x00size") {
			continue
		}
		p := filepath.Join(root, rel)
		os.MkdirAll(filepath.Dir(p), 0o755)
		if err := os.WriteFile(p, data, 0o644); err != nil {
			return err
		}
		if sz, ok := s.Files[rel+"\x00size"]; ok {
			var n int64
			fmt.Sscan(string(sz), &n)
			os.Truncate(p, n)
		}
	}
	return nil
}

func (s *Snap) listing() string {
	var b strings.Builder
	for _, k := range sortedKeys(s.Files) {
		if strings.HasSuffix(k, "\x00size") {
			continue
		}
		fmt.Fprintf(&b, "%s(%d) ", k, len(s.Files[k]))
	}
	return strings.TrimSpace(b.String())
}

// crashPoint is one recorded instant.
type crashPoint struct {
	Op      int    // index of the operation in progress (-1: none; the image after op i returned has Op=i, Ret=true)
	Ret     bool   // taken after the operation returned
	Event   string // the I/O event just completed
	EvSeq   int
	Snap    *Snap
	Synced  map[string]int64 // rel path -> length covered by the last successful sync (absent: 0)
	Durable int              // number of leading mutations that are durable at this instant (power-loss lower bound)
}

// crashRecorder follows the event stream of one workload.
type crashRecorder struct {
	root     string
	op       int
	active   bool // snapshot after every event
	points   []*crashPoint
	synced   map[string]int64
	lastW    map[int]map[string]int // op -> rel path -> event seq of its last write
	syncSeq  map[string]int         // rel path -> seq of the last sync
	evCount  int
	written  map[string]int64 // MMap: logical bytes written per file (rw.write events)
	opWrites map[string]bool
	// promised: number of leading mutations whose durability was PROMISED by a returned call (a Sync
	// batch, a Put/Delete under SyncStrategy Always, Sync(), Close()), whatever flushes were observed.
	promised int
}

func newCrashRecorder(root string) *crashRecorder {
	return &crashRecorder{root: root, op: -1, synced: map[string]int64{}, lastW: map[int]map[string]int{}, syncSeq: map[string]int{}, written: map[string]int64{}}
}

func (c *crashRecorder) rel(p string) string {
	r, err := filepath.Rel(c.root, p)
	if err != nil {
		return p
	}
	return r
}

func fileLen(p string) int64 {
	st, err := os.Stat(p)
	if err != nil {
		return 0
	}
	return st.Size()
}

func (c *crashRecorder) after(ev *iorec.Event) {
	c.evCount++
	rel := c.rel(ev.Path)
	if ev.Err == "" {
		switch ev.Op {
		case "write", "writeat", "rw.write", "writefile":
			if c.lastW[c.op] == nil {
				c.lastW[c.op] = map[string]int{}
			}
			c.lastW[c.op][rel] = c.evCount
			if ev.Op == "rw.write" {
				c.written[rel] = ev.Off + ev.N
			}
		case "sync":
			c.synced[rel] = fileLen(ev.Path)
			c.syncSeq[rel] = c.evCount
		case "msync":
			// an msync covers everything written into the mapping so far (tracked through the rw.write events)
			c.synced[rel] = c.written[rel]
			c.syncSeq[rel] = c.evCount
		case "create":
			c.synced[rel] = 0
		case "rename":
			rel2 := c.rel(ev.Path2)
			c.synced[rel2] = c.synced[rel]
			c.syncSeq[rel2] = c.syncSeq[rel]
			c.written[rel2] = c.written[rel]
			delete(c.synced, rel)
			for _, m := range c.lastW {
				if s, ok := m[rel]; ok {
					m[rel2] = s
					delete(m, rel)
				}
			}
		case "remove":
			delete(c.synced, rel)
		case "truncate":
			if c.synced[rel] > ev.N {
				c.synced[rel] = ev.N
			}
		}
	}
	if c.active {
		c.points = append(c.points, c.point(fmt.Sprintf("%s %s", ev.Op, rel), false))
	}
}

func (c *crashRecorder) point(event string, ret bool) *crashPoint {
	syn := make(map[string]int64, len(c.synced))
	for k, v := range c.synced {
		syn[k] = v
	}
	d := c.durable()
	if c.promised > d {
		d = c.promised
	}
	return &crashPoint{Op: c.op, Ret: ret, Event: event, EvSeq: c.evCount, Snap: takeSnap(c.root), Synced: syn, Durable: d}
}

// durable returns 1 + the largest index of a mutation all of whose written files were synced after
// its last write (0 if none): every mutation up to it must survive a power failure.
func (c *crashRecorder) durable() int {
	d := 0
	for op, files := range c.lastW {
		if op < 0 || len(files) == 0 {
			continue
		}
		ok := true
		for rel, seq := range files {
			if !strings.HasSuffix(rel, ".data") || strings.Contains(rel, "-merge") {
				continue
			}
			if c.syncSeq[rel] < seq {
				ok = false
			}
		}
		if ok && op+1 > d {
			d = op + 1
		}
	}
	return d
}

// recovery opens a materialised image (twice) and returns the dump or a failure description.
type recovery struct {
	OpenErr string // "" or error class / panic of the first Open
	Dump    *Dump
	Second  string // "" or description of a difference at the second Open
}

var imgSeq int

// crashContinuation: operations applied to a recovered database (process-death images): the recovered
// state must keep behaving like the reference map, also across further restarts ("start from non-initial
// states": residue of an interrupted operation must stay inert whatever is written later).
var crashContinuation = []Op{
	{K: "batch", Sub: []Op{{K: "put", Key: "c", VC: "S"}}}, // a key the workload never touches: residue on a / b stays visible
	{K: "restart"},
	{K: "put", Key: "c", VC: "S"},
	{K: "batch", Sub: []Op{{K: "del", Key: "c"}, {K: "put", Key: "b", VC: "S"}}},
	{K: "restart"},
}

func recoverImage(s *Snap, cfg Cfg, keys []string, res *TaskResult) recovery {
	return recoverImageCont(s, cfg, keys, res, nil)
}

// recoverImageCont: cont (optional) runs while the recovered database is open, after the first dump;
// a non-empty result is reported as a failure of the recovery.
func recoverImageCont(s *Snap, cfg Cfg, keys []string, res *TaskResult, cont func(w *World, d *Dump) string) recovery {
	imgSeq++
	root := filepath.Join(scratchRoot(), fmt.Sprintf("img%d", imgSeq))
	defer os.RemoveAll(root)
	if err := s.materialize(root); err != nil {
		return recovery{OpenErr: "harness: " + err.Error()}
	}
	saveAfter, saveBefore := iorec.After, iorec.Before
	iorec.After, iorec.Before = nil, nil
	defer func() { iorec.After, iorec.Before = saveAfter, saveBefore }()
	w := &World{Cfg: cfg, Root: root, Dir: filepath.Join(root, "db"), Model: map[string]string{}, Keys: keys, Cnt: map[string]int64{}, Hist: map[string]map[string]bool{}}
	res.Evals++
	if err := w.Open(); err != nil {
		return recovery{OpenErr: errClass(err) + ": " + truncate(panicDetail(err), 300)}
	}
	d := w.DumpDB()
	r := recovery{Dump: d}
	if secondDeath && d.Err == "" {
		if detail := secondUncleanShutdown(s, cfg, keys, res); detail != "" {
			r.Second = detail
			w.Close()
			return r
		}
	}
	if err := w.Close(); err != nil {
		r.Second = "Close after recovery: " + panicDetail(err)
		return r
	}
	if err := w.Open(); err != nil {
		r.Second = "second Open after recovery: " + panicDetail(err)
		return r
	}
	d2 := w.DumpDB()
	if !dumpEqual(d, d2) {
		r.Second = fmt.Sprintf("second Open differs: %s vs %s", d, d2)
		w.Close()
		return r
	}
	if cont != nil {
		if detail := cont(w, d2); detail != "" {
			r.Second = detail
		}
	}
	if w.DB != nil && !w.Dead {
		w.Close()
	}
	return r
}

// secondDeath: after the recovering Open of an image, acknowledge a few short writes and let the process die
// AGAIN (no Close): what the first recovery left behind the new logical end of a file (the remains of a torn record
// it dropped) must not disturb the recovery after the second death.
var secondDeath bool

func secondUncleanShutdown(s *Snap, cfg Cfg, keys []string, res *TaskResult) string {
	imgSeq++
	root := filepath.Join(scratchRoot(), fmt.Sprintf("img%d", imgSeq))
	defer os.RemoveAll(root)
	if err := s.materialize(root); err != nil {
		return ""
	}
	w := &World{Cfg: cfg, Root: root, Dir: filepath.Join(root, "db"), Model: map[string]string{}, Keys: keys, Cnt: map[string]int64{}, Hist: map[string]map[string]bool{}}
	res.Evals++
	if err := w.Open(); err != nil {
		return "" // the caller's own first Open reports this
	}
	d := w.DumpDB()
	if d.Err != "" {
		w.Close()
		return ""
	}
	w.Model = copyModel(d.KV)
	w.Step = 60
	type img struct {
		snap  *Snap
		model map[string]string
		after string
	}
	var imgs []img
	for _, op := range []Op{{K: "put", Key: "a", VC: "S"}, {K: "del", Key: "b"}} {
		ar := w.Apply(op)
		if ar.Clause != "" || ar.Err != nil || w.Dead || w.DB == nil {
			break // what the recovered database does with further operations is the continuation's oracle
		}
		imgs = append(imgs, img{takeSnap(root), copyModel(w.Model), op.String()})
	}
	if w.DB != nil && !w.Dead {
		w.Close()
	}
	for _, im := range imgs {
		imgSeq++
		root2 := filepath.Join(scratchRoot(), fmt.Sprintf("img%d", imgSeq))
		if err := im.snap.materialize(root2); err != nil {
			os.RemoveAll(root2)
			return ""
		}
		w2 := &World{Cfg: cfg, Root: root2, Dir: filepath.Join(root2, "db"), Model: map[string]string{}, Keys: keys, Cnt: map[string]int64{}, Hist: map[string]map[string]bool{}}
		res.Evals++
		res.count("second_death_images", 1)
		err := w2.Open()
		detail := ""
		if err != nil {
			detail = fmt.Sprintf("second unclean shutdown (process death after the recovered database acknowledged %s): Open failed: %s: %s\nimage: %s", im.after, errClass(err), truncate(panicDetail(err), 300), im.snap.listing())
		} else {
			d2 := w2.DumpDB()
			if d2.Err != "" || !sameMap(d2.KV, im.model) || d2.KeyNum != len(im.model) {
				detail = fmt.Sprintf("second unclean shutdown (process death after the recovered database acknowledged %s): recovered %s, acknowledged %s", im.after, d2, modelString(im.model))
			}
			w2.Close()
		}
		os.RemoveAll(root2)
		if detail != "" {
			return detail
		}
	}
	return ""
}

// continueAfterRecovery applies crashContinuation to w (whose mapping is base) with the reference-map oracle.
func continueAfterRecovery(w *World, base map[string]string) string {
	w.Model = copyModel(base)
	w.Step = 40 // values distinct from the workload's
	for i, op := range crashContinuation {
		ar := w.Apply(op)
		if ar.Clause != "" || errClass(ar.Err) == "panic" {
			return fmt.Sprintf("continuing after recovery, step %d %s: %s %s", i, op, errClass(ar.Err), ar.Detail)
		}
		if w.Dead || w.DB == nil {
			return ""
		}
		if c, d := w.CheckReads(); c != "" {
			return fmt.Sprintf("continuing after recovery, after step %d %s: %s (%s); model %s", i, op, d, c, modelString(w.Model))
		}
	}
	return ""
}

// matchState returns the index j in [lo,hi] with dump == states[j], or -1.
func matchState(d *Dump, states []map[string]string, lo, hi int) int {
	if d == nil || d.Err != "" {
		return -1
	}
	for j := hi; j >= lo; j-- {
		if j >= 0 && j < len(states) && sameMap(d.KV, states[j]) && d.KeyNum == len(states[j]) {
			return j
		}
	}
	return -1
}

func copyModel(m map[string]string) map[string]string {
	c := make(map[string]string, len(m))
	for k, v := range m {
		c[k] = v
	}
	return c
}

// cutImages enumerates the power-loss images of one crash point: every file with an unsynced tail
// cut to every length in [synced, current); then pairs of files (all combinations when the product is
// <= maxPair, otherwise lengths within 16 bytes of either end). visit receives a description.
func cutImages(p *crashPoint, maxPair int, filter func(n, from, to int64) bool, visit func(s *Snap, desc string) bool) {
	type tail struct {
		rel      string
		from, to int64
	}
	var tails []tail
	for _, rel := range sortedKeys(p.Snap.Files) {
		if strings.HasSuffix(rel, "\x00size") || strings.HasSuffix(rel, ".lock") {
			continue
		}
		cur := int64(len(p.Snap.Files[rel]))
		syn := p.Synced[rel]
		if syn < 0 || syn >= cur {
			continue
		}
		tails = append(tails, tail{rel, syn, cur})
	}
	cut := func(s *Snap, rel string, n int64) {
		s.Files[rel] = s.Files[rel][:n]
	}
	for _, t := range tails {
		for n := t.from; n < t.to; n++ {
			if filter != nil && !filter(n, t.from, t.to) {
				continue
			}
			s := p.Snap.clone()
			cut(s, t.rel, n)
			if !visit(s, fmt.Sprintf("%s cut to %d of %d (synced %d)", t.rel, n, t.to, t.from)) {
				return
			}
		}
	}
	for i := 0; i < len(tails); i++ {
		for j := i + 1; j < len(tails); j++ {
			a, b := tails[i], tails[j]
			full := int((a.to-a.from)*(b.to-b.from)) <= maxPair
			lens := func(t tail) []int64 {
				var out []int64
				for n := t.from; n < t.to; n++ {
					if filter != nil && !filter(n, t.from, t.to) {
						continue
					}
					if full || n-t.from < 16 || t.to-n <= 16 {
						out = append(out, n)
					}
				}
				return out
			}
			for _, na := range lens(a) {
				for _, nb := range lens(b) {
					s := p.Snap.clone()
					cut(s, a.rel, na)
					cut(s, b.rel, nb)
					if !visit(s, fmt.Sprintf("%s cut to %d/%d and %s cut to %d/%d", a.rel, na, a.to, b.rel, nb, b.to)) {
						return
					}
				}
			}
		}
	}
}

// crashRun executes ops on a fresh world, recording crash points inside ops[from:] (and after each
// returned). states[j] = reference mapping after the first j operations.
type crashRun struct {
	Points []*crashPoint
	States []map[string]string
	Acked  []bool // op i returned nil
	Err    string // the workload itself failed (not judged here)
}

func recordCrashRun(cfg Cfg, keys []string, ops []Op, from int, res *TaskResult) *crashRun {
	beginExecution()
	w := NewWorld(cfg, keys)
	defer w.Destroy()
	rec := newCrashRecorder(w.Root)
	iorec.After = rec.after
	defer func() { iorec.After = nil }()
	res.Execs++
	run := &crashRun{}
	if err := w.Open(); err != nil {
		run.Err = "open: " + panicDetail(err)
		return run
	}
	run.States = append(run.States, copyModel(w.Model))
	for i, op := range ops {
		rec.op = i
		if i >= from {
			if !rec.active {
				rec.active = true
				// the instant before the first event of the first examined operation
				rec.op = i - 1
				rec.points = append(rec.points, rec.point("(before "+op.String()+")", true))
				rec.op = i
			}
		}
		ar := w.Apply(op)
		res.Transitions++
		if w.Dead || w.DB == nil || ar.Clause != "" {
			run.Err = fmt.Sprintf("workload step %d %s failed: %s %s", i, op, errClass(ar.Err), ar.Detail)
			break
		}
		run.Acked = append(run.Acked, ar.Err == nil)
		run.States = append(run.States, copyModel(w.Model))
		if ar.Err == nil {
			wrote := len(rec.lastW[i]) > 0 // a call that appended nothing (empty batch, Delete of an absent key) promises nothing
			switch {
			case op.K == "sync", op.K == "restart":
				rec.promised = i + 1
			case wrote && (op.K == "batch" && op.Arg == 1 || (op.K == "put" || op.K == "del") && cfg.Sync == 1):
				rec.promised = i + 1
			}
		}
		if rec.active {
			rec.points = append(rec.points, rec.point("(after "+op.String()+" returned)", true))
		}
	}
	rec.active = false
	run.Points = rec.points
	return run
}

package main

import (
	"encoding/json"
	"fmt"
	"os"
	"strings"

	"github.com/XiXi-2024/xixi-kv/datafile"
)

// C17 — Stat / space accounting exact, files respect the size limit.

func checkAccounting(w *World, op Op, ar ApplyResult) (clause, detail string) {
	if op.K == "merge" && ar.Err != nil {
		if c := errClass(ar.Err); c == "ErrNoEnoughSpaceForMerge" || c == "ErrMergeRatioUnreached" {
			t, r, _ := w.DB.VerifCounters()
			return "merge-refused", fmt.Sprintf("Merge refused with %s (DiskSize=%d ReclaimableSize=%d) although disk space is ample and the ratio is 0", c, t, r)
		}
	}
	var st struct {
		KeyNum, DataFileNum int
		Reclaim, Disk       int64
	}
	err := w.guard(func() error {
		s := w.DB.Stat()
		st.KeyNum, st.DataFileNum, st.Reclaim, st.Disk = s.KeyNum, s.DataFileNum, s.ReclaimableSize, s.DiskSize
		return nil
	})
	if err != nil {
		return "panic", panicDetail(err)
	}
	if st.KeyNum != len(w.Model) {
		return "keynum", fmt.Sprintf("Stat.KeyNum=%d, live keys=%d", st.KeyNum, len(w.Model))
	}
	ents, _ := os.ReadDir(w.Dir)
	nfiles := 0
	for _, e := range ents {
		if strings.HasSuffix(e.Name(), datafile.DataFileSuffix) {
			nfiles++
		}
	}
	if st.DataFileNum != nfiles {
		return "datafilenum", fmt.Sprintf("Stat.DataFileNum=%d, .data files in the directory=%d", st.DataFileNum, nfiles)
	}
	if st.Reclaim < 0 || st.Reclaim > st.Disk {
		return "reclaim-range", fmt.Sprintf("0 <= ReclaimableSize <= DiskSize violated: Reclaimable=%d DiskSize=%d", st.Reclaim, st.Disk)
	}
	if w.Cfg.IO != 0 {
		return "", "" // an outside reader cannot see the logical size of a mapped file; the Standard-I/O twin is judged (C14 compares Stat across back-ends)
	}
	files, err := scanDataFiles(w.Dir)
	if err != nil {
		return "", ""
	}
	for _, f := range files {
		if f.ScanErr != "" {
			return "scan-error", fmt.Sprintf("package reader failed on file %d: %s", f.Fid, f.ScanErr)
		}
	}
	live := liveFromScan(files)
	var liveBytes int64
	for _, r := range live {
		liveBytes += int64(r.Pos.Size)
	}
	if len(live) != len(w.Model) {
		return "scan-vs-model", fmt.Sprintf("records decoded from the files give %d live keys, the mapping has %d", len(live), len(w.Model))
	}
	if st.Disk-st.Reclaim != liveBytes {
		return "live-bytes", fmt.Sprintf("DiskSize-ReclaimableSize = %d-%d = %d, bytes occupied by live records = %d", st.Disk, st.Reclaim, st.Disk-st.Reclaim, liveBytes)
	}
	for _, f := range files {
		if f.Size <= w.Cfg.FileSize {
			continue
		}
		data, seals := 0, 0
		for _, r := range f.Recs {
			if r.Type == datafile.LogRecordBatchFinished {
				seals++
			} else {
				data++
			}
		}
		// A file over the limit must hold exactly one data record (plus at most its sealing record). Whether the
		// sealing record counts towards "alone exceeds the limit" is ambiguous in the statement; a file with one
		// record and its seal is accepted (an earlier, stricter reading raised an alarm for DataFileSize 64,
		// where a 48-byte record plus its 38-byte seal cannot fit into any file).
		if data != 1 || seals > 1 {
			return "file-over-limit", fmt.Sprintf("file %d has %d bytes > DataFileSize %d but holds %d data records and %d sealing records", f.Fid, f.Size, w.Cfg.FileSize, data, seals)
		}
	}
	return "", ""
}

func runC17(cfg Cfg, keys []string, ops []Op, res *TaskResult) *Violation {
	nontriv := false
	v := RunTrace(cfg, keys, ops, res, func(w *World, i int, op Op, ar ApplyResult) *Violation {
		if errClass(ar.Err) == "panic" || ar.Clause != "" {
			return nil // C01 / C02 territory
		}
		res.Evals++
		if c, d := checkAccounting(w, op, ar); c != "" {
			return viol("C17", c, c+":after-"+op.K, fmt.Sprintf("step %d %s: %s", i, op, d))
		}
		if i == len(ops)-1 {
			res.States = append(res.States, w.StateHash())
			if s := w.DB.Stat(); s.ReclaimableSize > 0 && s.DataFileNum > 1 {
				nontriv = true
			}
		}
		return nil
	})
	if nontriv {
		res.Nontrivial++
	}
	return v
}

// delete-only batches of existing keys on a partly filled file (DataFileSize 130): 10-byte keys, values of 4..12
// bytes put the active file anywhere between "the batch still fits" and "the tombstones alone overflow it" - the
// staged bytes of Batch.Delete decide whether the batch rotates first.
var tenByteKeys = []string{"kkkkkkkkk1", "kkkkkkkkk2"}

func deleteBatchAlphabet(c Cfg) []Op {
	var a []Op
	for _, n := range []int{4, 6, 8, 10, 12} {
		a = append(a, Op{K: "put", Key: tenByteKeys[0], VC: "F", Arg: n}, Op{K: "put", Key: tenByteKeys[1], VC: "F", Arg: n})
	}
	return append(a,
		Op{K: "batch", Sub: []Op{{K: "del", Key: tenByteKeys[0]}, {K: "del", Key: tenByteKeys[1]}}},
		Op{K: "batch", Sub: []Op{{K: "del", Key: tenByteKeys[1]}}},
		Op{K: "batch", Sub: []Op{{K: "del", Key: tenByteKeys[0]}, {K: "put", Key: tenByteKeys[1], VC: "F", Arg: 8}}},
	)
}

var deleteBatchLevel = func(run func(cfg Cfg, keys []string, ops []Op, res *TaskResult) *Violation, d int) seqLevel {
	return seqLevel{Name: fmt.Sprintf("delete-batch-d%d", d), Cfgs: []Cfg{defaultCfg}, Keys: tenByteKeys, Alpha: deleteBatchAlphabet, Depth: d, Dev: d, Run: run}
}

// rotation sweep: the decision "does this record still fit into the active file" is taken on an ESTIMATE of the
// record's size; for every remaining room from 480 bytes below to 30 bytes above "value length = remaining room" (the exact fit lies inside: the framing of both records takes up to ~350 bytes), for records of
// 1 to 13 chunks: a file with more than one record never ends up larger than DataFileSize
func rotationSweepTasks(tier string) []Task {
	cfg := defaultCfg
	cfg.FileSize = 1 << 20
	var tasks []Task
	vs := []int{3, 40000, 70000, 200000, 400000}
	if tier == "thorough" {
		vs = append(vs, 32768-20, 100000, 163840, 300000, 600000)
	}
	for _, v := range vs {
		for lo := -480; lo < 30; lo += 30 {
			v, lo := v, lo
			tasks = append(tasks, Task{Level: "rotation-sweep", Name: fmt.Sprintf("rotation sweep value %d room %d..%d", v, lo, lo+29), Fn: func(res *TaskResult) {
				for d := lo; d < lo+30; d++ {
					x := int(cfg.FileSize) - v + d
					ops := []Op{{K: "put", Key: "a", VC: "F", Arg: x}, {K: "put", Key: "b", VC: "F", Arg: v}, {K: "put", Key: "a", VC: "S"}}
					announce(func() string { return cfg.String() + " :: " + traceString(ops) })
					if viol := runC17(cfg, keysAB, ops, res); viol != nil {
						viol.Prop = "C17"
						viol.Replay = mustJSON(seqReplay{Engine: "seq", Prop: "C17", Cfg: cfg, Keys: keysAB, Ops: ops, Trace: traceString(ops)})
						viol.Detail = fmt.Sprintf("cfg=%s trace=[%s]\n%s", cfg, traceString(ops), viol.Detail)
						addViolation(res, viol)
						if len(res.Violations) >= 2 {
							return
						}
					}
				}
				if len(res.Samples) == 0 {
					res.Samples = append(res.Samples, fmt.Sprintf("put a (DataFileSize - %d + d bytes), put b (%d bytes), put a S for d in %d..%d", v, v, lo, lo+29))
				}
			}})
		}
	}
	return tasks
}

func init() {
	register(&Check{
		Prop:   "C17",
		Engine: "seq",
		Rule:   "C01's operation sequences; after every step Stat is compared with values recomputed from the data files decoded with the package's own reader; non-trivial = final state has reclaimable bytes and more than one data file",
		Assumptions: []string{
			"DataFileMergeRatio 0 and ample free space: a refused Merge can only come from drifted counters",
			"the byte-level recomputation is done for Standard I/O only (an outside reader cannot see the logical size of a mapped file); MMap runs are judged on KeyNum, DataFileNum and 0<=Reclaimable<=DiskSize",
			"DiskSize itself is not pinned (the statement only constrains DiskSize-ReclaimableSize and the range)",
		},
		Tasks: func(tier string) []Task {
			if tier == "quick" {
				return append(seqTasks("C17", []seqLevel{
					{Name: "long-keys-d5", Cfgs: longKeyCfgs(), Keys: c18LongKeys, Alpha: longKeyMergeAlphabet, Depth: 5, Dev: 3, Run: runC17},
					{Name: "same-offset-d6", Cfgs: []Cfg{blockCfg()}, Keys: keysAB, Alpha: sameOffsetAlphabet, Depth: 6, Dev: 6, Run: runC17},
					{Name: "tiny-d3b2", Cfgs: tinyCfgs(), Keys: keysAB, Alpha: tinyAlphabet, Depth: 3, Dev: 2, Run: runC17},
					{Name: "tiny-d4b2", Cfgs: []Cfg{defaultCfg}, Keys: keysAB, Alpha: tinyAlphabet, Depth: 4, Dev: 2, Run: runC17},
					{Name: "block-d3b2", Cfgs: []Cfg{blockCfg(), oddBlockCfg()}, Keys: keysAB, Alpha: blockAlphabet, Depth: 3, Dev: 2, Run: runC17},
					deleteBatchLevel(runC17, 3),
				}), rotationSweepTasks(tier)...)
			}
			return append(seqTasks("C17", []seqLevel{
				{Name: "long-keys-d6", Cfgs: longKeyCfgs(), Keys: c18LongKeys, Alpha: longKeyMergeAlphabet, Depth: 6, Dev: 3, Run: runC17},
				{Name: "same-offset-d7", Cfgs: []Cfg{blockCfg()}, Keys: keysAB, Alpha: sameOffsetAlphabet, Depth: 7, Dev: 7, Run: runC17},
				{Name: "tiny-d4b3", Cfgs: tinyCfgs(), Keys: keysAB, Alpha: tinyAlphabet, Depth: 4, Dev: 3, Run: runC17},
				{Name: "tiny-d5b3", Cfgs: []Cfg{defaultCfg}, Keys: keysAB, Alpha: tinyAlphabet, Depth: 5, Dev: 3, Split: 2, Run: runC17},
				{Name: "block-d4b3", Cfgs: []Cfg{blockCfg()}, Keys: keysAB, Alpha: blockAlphabet, Depth: 4, Dev: 3, Run: runC17},
				deleteBatchLevel(runC17, 4),
			}), rotationSweepTasks(tier)...)
		},
		Replay: func(raw json.RawMessage) { seqReplayMain(raw, runC17) },
	})
}

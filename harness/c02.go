package main

import (
	"encoding/json"
	"fmt"
	"github.com/XiXi-2024/xixi-kv/verifrt/iorec"
	"io"
	"os"
	"os/exec"
	"path/filepath"
	"strings"
	"syscall"
)

// C02 — clean restart preserves the mapping under any (writer cfg, reader cfg) pair, at every end offset.

func copyDir(src, dst string) error {
	os.RemoveAll(dst)
	return exec.Command("cp", "-a", "--sparse=always", src, dst).Run()
}

func dumpEqual(a, b *Dump) bool {
	return a.Err == "" && b.Err == "" && sameMap(a.KV, b.KV) && a.KeyNum == b.KeyNum && equalStrings(a.Order, b.Order)
}

// c02Readers: the reader configurations every clean image is reopened with.
func c02Readers(tier string) []Cfg {
	return tinyCfgs()
}

// crossRestart closes w, verifies on copies that every reader configuration sees the same dump
// (and that restarting again is idempotent), then reopens the original directory with cont.
func crossRestart(w *World, readers []Cfg, cont Cfg, res *TaskResult) *Violation {
	before := w.DumpDB()
	if before.Err != "" {
		return nil // C01's business
	}
	if !sameMap(before.KV, w.Model) {
		return nil // C01's business
	}
	if err := w.Close(); err != nil {
		return viol("C02", "close-error", "close-error:"+errClass(err), "Close: "+panicDetail(err))
	}
	for _, rc := range readers {
		rc.FileSize = fileSizeFor(rc, w.Cfg)
		cp := NewWorld(rc, w.Keys)
		cp.Dir = cp.Root + "/db"
		if err := copyDirGo(w.Dir, cp.Dir); err != nil {
			cp.Destroy()
			return &Violation{Prop: "C02", Clause: "harness", Sig: "harness", Detail: "copy failed: " + err.Error()}
		}
		if _, err := os.Stat(w.Dir + "-merge"); err == nil {
			copyDirGo(w.Dir+"-merge", cp.Dir+"-merge")
		}
		for k := 1; k <= 2; k++ {
			if err := cp.Open(); err != nil {
				cp.Destroy()
				return viol("C02", "open-error", "open-error:"+errClass(err), fmt.Sprintf("Open #%d with reader cfg %s after a clean Close (writer cfg %s): %s", k, rc, w.Cfg, panicDetail(err)))
			}
			after := cp.DumpDB()
			res.Evals++
			if !dumpEqual(before, after) {
				cp.Destroy()
				return viol("C02", "dump-differs", "dump-differs", fmt.Sprintf("restart #%d, writer cfg %s, reader cfg %s:\n before Close: %s\n after Open:   %s", k, w.Cfg, rc, before, after))
			}
			if err := cp.Close(); err != nil {
				cp.Destroy()
				return viol("C02", "close-error", "close-error:"+errClass(err), "Close of reader: "+panicDetail(err))
			}
		}
		cp.Destroy()
	}
	w.Cfg = cont
	if err := w.Open(); err != nil {
		return viol("C02", "open-error", "open-error:"+errClass(err), fmt.Sprintf("Open with cfg %s after a clean Close: %s", cont, panicDetail(err)))
	}
	after := w.DumpDB()
	if !dumpEqual(before, after) {
		return viol("C02", "dump-differs", "dump-differs", fmt.Sprintf("writer/reader cfg %s:\n before Close: %s\n after Open:   %s", cont, before, after))
	}
	return nil
}

// fileSizeFor keeps value classes comparable: readers use their own limit (the property allows any).
func fileSizeFor(reader, writer Cfg) int64 { return reader.FileSize }

// copyDirGo copies the regular files of src into dst. Files with a hole at their end (MMap files are
// extended to a multiple of 512 MiB) are copied as (data extent, physical length): cheap and exact.
func copyDirGo(src, dst string) error {
	if err := os.MkdirAll(dst, 0o755); err != nil {
		return err
	}
	ents, err := os.ReadDir(src)
	if err != nil {
		return err
	}
	for _, e := range ents {
		if e.IsDir() {
			continue
		}
		if err := copyFileSparse(src+"/"+e.Name(), dst+"/"+e.Name()); err != nil {
			return err
		}
	}
	return nil
}

// dataExtent returns the end of the last data segment of f (SEEK_DATA=3 / SEEK_HOLE=4).
func dataExtent(f *os.File) int64 {
	st, err := f.Stat()
	if err != nil {
		return 0
	}
	size := st.Size()
	extent := int64(0)
	off := int64(0)
	for off < size {
		d, err := syscall.Seek(int(f.Fd()), off, 3)
		if err != nil {
			break
		}
		h, err := syscall.Seek(int(f.Fd()), d, 4)
		if err != nil {
			h = size
		}
		extent = h
		off = h
	}
	return extent
}

func copyFileSparse(src, dst string) error {
	f, err := os.Open(src)
	if err != nil {
		return err
	}
	defer f.Close()
	st, err := f.Stat()
	if err != nil {
		return err
	}
	size := st.Size()
	extent := size
	if size >= 1<<20 {
		extent = dataExtent(f)
	}
	buf := make([]byte, extent)
	if _, err := io.ReadFull(io.NewSectionReader(f, 0, extent), buf); err != nil && extent > 0 {
		return err
	}
	out, err := os.OpenFile(dst, os.O_CREATE|os.O_WRONLY|os.O_TRUNC, 0o644)
	if err != nil {
		return err
	}
	defer out.Close()
	if _, err := out.Write(buf); err != nil {
		return err
	}
	if extent < size {
		return out.Truncate(size)
	}
	return nil
}

func c02Alphabet(c Cfg) []Op {
	var a []Op
	for _, o := range tinyAlphabet(c) {
		if o.K == "restart" {
			o = Op{K: "xrestart", Dev: false}
		}
		a = append(a, o)
	}
	return a
}

// runC02 executes ops; "xrestart" = cross-configuration restart. extra (in the replay) carries the pair.
// makeRunC02 wraps the runner so that a violation carries everything its replay needs (writer, reader, reader set).
func makeRunC02(writer, reader Cfg, readers []Cfg) func(cfg Cfg, keys []string, ops []Op, res *TaskResult) *Violation {
	inner := makeRunC02Inner(writer, reader, readers)
	return func(cfg Cfg, keys []string, ops []Op, res *TaskResult) *Violation {
		v := inner(cfg, keys, ops, res)
		if v != nil && len(v.Replay) == 0 {
			v.Detail = fmt.Sprintf("cfg=%s reader=%s trace=[%s]\n%s", cfg, reader, traceString(ops), v.Detail)
			v.Replay = mustJSON(seqReplay{Engine: "seq", Prop: "C02", Cfg: cfg, Keys: keys, Ops: ops, Trace: traceString(ops), Extra: c02Extra{Writer: writer, Reader: reader, Readers: readers}})
		}
		return v
	}
}

func makeRunC02Inner(writer, reader Cfg, readers []Cfg) func(cfg Cfg, keys []string, ops []Op, res *TaskResult) *Violation {
	return func(cfg Cfg, keys []string, ops []Op, res *TaskResult) *Violation {
		beginExecution()
		wc := writer
		wc.Pool = cfg.Pool
		w := NewWorld(wc, keys)
		defer w.Destroy()
		res.Execs++
		if err := w.Open(); err != nil {
			return viol("C02", "open-fresh", "open-fresh", panicDetail(err))
		}
		restarts := 0
		sawBatch, sawMerge := false, false
		for i, op := range ops {
			res.Transitions++
			if op.K == "xrestart" {
				cont := reader
				if restarts%2 == 1 {
					cont = writer
				}
				restarts++
				if v := crossRestart(w, readers, cont, res); v != nil {
					v.Detail = fmt.Sprintf("step %d %s: %s", i, op, v.Detail)
					return v
				}
				continue
			}
			ar := w.Apply(op)
			if ar.Err != nil && errClass(ar.Err) == "panic" {
				return nil // C01 reports panics of plain operations
			}
			if w.Dead || w.DB == nil {
				return nil
			}
			sawBatch = sawBatch || (op.K == "batch" && ar.Err == nil)
			sawMerge = sawMerge || (op.K == "merge" && ar.Err == nil)
		}
		// every sequence ends with a cross restart, so each maximal sequence checks its final state too
		if v := crossRestart(w, readers, reader, res); v != nil {
			v.Detail = "final restart: " + v.Detail
			return v
		}
		res.States = append(res.States, w.StateHash())
		if restarts > 0 && (sawBatch || sawMerge) {
			res.Nontrivial++
		}
		return nil
	}
}

type c02Extra struct {
	Writer, Reader Cfg
	Readers        []Cfg
}

func c02Tasks(tier string) []Task {
	readers := c02Readers(tier)
	var tasks []Task
	addLevel := func(name string, pairs [][2]Cfg, depth, dev int) {
		for _, p := range pairs {
			p := p
			run := makeRunC02(p[0], p[1], readers)
			lv := seqLevel{Name: name, Cfgs: []Cfg{p[0]}, Keys: keysAB, Alpha: c02Alphabet, Depth: depth, Dev: dev, Run: run}
			for _, t := range seqTasks("C02", []seqLevel{lv}) {
				t.Name = fmt.Sprintf("%s reader=%s", t.Name, p[1])
				tasks = append(tasks, t)
			}
		}
	}
	cfgs := tinyCfgs()
	var allPairs, diagPairs [][2]Cfg
	for _, a := range cfgs {
		for _, b := range cfgs {
			allPairs = append(allPairs, [2]Cfg{a, b})
		}
		diagPairs = append(diagPairs, [2]Cfg{a, cfgs[(indexOfCfg(cfgs, a)+1)%len(cfgs)]})
	}
	// long keys (two 20 000-byte keys): hint files and records that span block boundaries, reopened under every
	// index type (the index back-ends differ in whether they copy a key handed to them)
	{
		lw := defaultCfg
		lw.FileSize = 1 << 20
		var lr []Cfg
		for _, ix := range []int8{1, 2, 3} {
			for _, io := range []byte{0, 1} {
				c := lw
				c.Index, c.IO = ix, io
				lr = append(lr, c)
			}
		}
		alpha := func(c Cfg) []Op {
			return []Op{{K: "put", Key: c18LongKeys[0], VC: "S"}, {K: "put", Key: c18LongKeys[1], VC: "S"}, {K: "put", Key: "m", VC: "S"},
				{K: "del", Key: c18LongKeys[1], Dev: true}, {K: "merge", Dev: true}, {K: "xrestart", Dev: true}}
		}
		for _, wix := range []int8{1, 3} {
			w := lw
			w.Index = wix
			run := makeRunC02(w, lr[0], lr)
			lv := seqLevel{Name: "longkeys-d4", Cfgs: []Cfg{w}, Keys: c18LongKeys, Alpha: alpha, Depth: 4, Dev: 2, Run: run}
			tasks = append(tasks, seqTasks("C02", []seqLevel{lv})...)
		}
	}
	// block family under cross-configuration restarts: multi-block values, also staged in batches (pooled records
	// with large buffers), records next to block boundaries
	{
		bw := blockCfg()
		var br []Cfg
		for _, ix := range []int8{1, 3} {
			for _, io := range []byte{0, 1} {
				c := bw
				c.Index, c.IO = ix, io
				br = append(br, c)
			}
		}

		alpha := func(c Cfg) []Op {
			return []Op{{K: "put", Key: "a", VC: "S"}, {K: "put", Key: "b", VC: "S"}, {K: "del", Key: "a"},
				{K: "batch", Sub: []Op{{K: "put", Key: "a", VC: "S"}, {K: "put", Key: "b", VC: "M"}}, Dev: true},
				{K: "put", Key: "b", VC: "B", Arg: 3, Dev: true}, {K: "xrestart", Dev: true}}
		}
		run := makeRunC02(bw, br[1], br)
		tasks = append(tasks, seqTasks("C02", []seqLevel{{Name: "block-family-d4", Cfgs: bothPools(bw), Keys: keysAB, Alpha: alpha, Depth: 4, Dev: 2, Run: run}})...)
	}
	// binary keys (ending in zero bytes, prefixes of one another, leading 0xFF) under cross-configuration restarts:
	// every index type x both back-ends as readers (shard hash, index order, record and hint encodings)
	{
		var br []Cfg
		for _, ix := range []int8{1, 2, 3} {
			for _, io := range []byte{0, 1} {
				c := defaultCfg
				c.Index, c.IO = ix, io
				br = append(br, c)
			}
		}
		alpha := func(c Cfg) []Op {
			return []Op{{K: "put", Key: binaryKeys[0], VC: "S"}, {K: "put", Key: binaryKeys[1], VC: "S"}, {K: "put", Key: binaryKeys[2], VC: "L"},
				{K: "del", Key: binaryKeys[0], Dev: true}, {K: "merge", Dev: true}, {K: "xrestart", Dev: true}}
		}
		run := makeRunC02(defaultCfg, br[1], br)
		tasks = append(tasks, seqTasks("C02", []seqLevel{{Name: "binary-keys-d4", Cfgs: []Cfg{defaultCfg}, Keys: binaryKeys, Alpha: alpha, Depth: 4, Dev: 2, Run: run}})...)
	}
	// reopening with another DataFileSize and merging afterwards (the merge output then needs more / fewer files
	// than its input): deeper than the pair levels, restricted to the pairs that differ in DataFileSize
	{
		fs := func(n int64) Cfg { c := defaultCfg; c.FileSize = n; return c }
		alpha := func(c Cfg) []Op {
			return []Op{{K: "put", Key: "a", VC: "S"}, {K: "put", Key: "b", VC: "S"}, {K: "put", Key: "a", VC: "L"}, {K: "del", Key: "b"},
				{K: "merge"}, {K: "merge", Arg: 1}, {K: "xrestart"}}
		}
		for _, p := range [][2]Cfg{{fs(200), fs(64)}, {fs(130), fs(64)}, {fs(200), fs(130)}, {fs(64), fs(200)}} {
			run := makeRunC02(p[0], p[1], []Cfg{p[0], p[1]})
			lv := seqLevel{Name: "filesize-change-d5", Cfgs: []Cfg{p[0]}, Keys: keysAB, Alpha: alpha, Depth: 5, Dev: 5, Run: run}
			for _, t := range seqTasks("C02", []seqLevel{lv}) {
				t.Name = fmt.Sprintf("%s reader=%s", t.Name, p[1])
				tasks = append(tasks, t)
			}
		}
	}
	// a failed operation is not in the log: every I/O call of the last operation fails once; the restart that follows
	// shows the mapping that was live (C01's fault level, judged here for what the RESTART shows)
	{
		run := func(cfg Cfg, keys []string, ops []Op, res *TaskResult) *Violation {
			v := runC01Fault(cfg, keys, ops, res)
			if v != nil {
				v.Prop = "C02"
			}
			return v
		}
		tasks = append(tasks, seqTasks("C02", []seqLevel{{Name: "fault-d3", Cfgs: c01FaultCfgs(), Keys: keysAB, Alpha: c01FaultAlphabet, Depth: 3, Dev: 3, Run: run}})...)
		stagingAlpha := func(c Cfg) []Op {
			return []Op{{K: "put", Key: "a", VC: "S"}, {K: "put", Key: "b", VC: "L"},
				{K: "batch", Sub: []Op{{K: "put", Key: "a", VC: "L"}, {K: "put", Key: "b", VC: "L"}, {K: "put", Key: "a", VC: "S"}}},
				{K: "batch", Sub: []Op{{K: "put", Key: "a", VC: "S"}, {K: "del", Key: "b"}, {K: "put", Key: "b", VC: "S"}}}}
		}
		tasks = append(tasks, seqTasks("C02", []seqLevel{{Name: "batch-staging-fault-d3", Cfgs: []Cfg{defaultCfg}, Keys: keysAB, Alpha: stagingAlpha, Depth: 3, Dev: 3, Run: runBatchStagingFault}})...)
	}
	// the same directory under both spellings of its path (with / without a trailing separator), merges in between
	{
		run := makeRunC02(defaultCfg, defaultCfg, []Cfg{defaultCfg})
		tasks = append(tasks, seqTasks("C02", []seqLevel{{Name: "dir-spelling-d5", Cfgs: []Cfg{defaultCfg}, Keys: keysAB, Alpha: dirSpellingAlphabet, Depth: 5, Dev: 2, Run: run}})...)
	}
	if tier == "quick" {
		addLevel("pairs-d2", allPairs, 2, 2)
		addLevel("ring-d3b2", diagPairs, 3, 2)
		tasks = append(tasks, sweepTasks(tier)...)
	} else {
		addLevel("pairs-d3b2", allPairs, 3, 2)
		addLevel("ring-d4b2", diagPairs, 4, 2)
		tasks = append(tasks, sweepTasks(tier)...)
	}
	return tasks
}

func indexOfCfg(cs []Cfg, c Cfg) int {
	for i := range cs {
		if cs[i] == c {
			return i
		}
	}
	return -1
}

// ---- end-offset sweep --------------------------------------------------------------------------

// sweepOne builds a database whose last data file ends at offset e (mod 32768) of block blk using
// shape, closes it, reopens under both back-ends, dumps, appends, reopens. Returns whether e was hit.
func sweepOne(shape string, e int, res *TaskResult) (*Violation, bool) {
	cfg := defaultCfg
	cfg.FileSize = 4 << 20
	var lastDelta int
	for try := 0; try < 3; try++ {
		beginExecution()
		w := NewWorld(cfg, keysAB)
		res.Execs++
		if err := w.Open(); err != nil {
			w.Destroy()
			return viol("C02", "open-fresh", "open-fresh", panicDetail(err)), false
		}
		target := e
		var ops []Op
		switch shape {
		case "one": // one record ending at e in block 0
			ops = []Op{{K: "put", Key: "b", VC: "B", Arg: 32768 - target + lastDelta}}
		case "padded": // a record ending 3 bytes before the boundary, then a record ending at e in block 1
			ops = []Op{{K: "put", Key: "a", VC: "B", Arg: 3}, {K: "put", Key: "b", VC: "B", Arg: 32768 - target + lastDelta}}
		case "batch": // a two-record batch flush whose sealing record ends at e
			ops = []Op{{K: "batch", Sub: []Op{{K: "put", Key: "a", VC: "S"}, {K: "put", Key: "b", VC: "B", Arg: 32768 - target + lastDelta}}}}
		}
		ok := true
		for _, op := range ops {
			if ar := w.Apply(op); ar.Err != nil {
				ok = false
			}
			res.Transitions++
		}
		if !ok {
			w.Destroy()
			return nil, false
		}
		_, size, _ := w.DB.VerifFiles()
		got := int(size % 32768)
		if got != e {
			w.Destroy()
			lastDelta += got - e
			if try == 2 {
				return nil, false
			}
			continue
		}
		// hit: clean restart under both back-ends, append, restart again
		mm := cfg
		mm.IO = 1
		for _, rc := range []Cfg{cfg, mm} {
			if v := crossRestart(w, []Cfg{rc}, cfg, res); v != nil {
				w.Destroy()
				v.Sig = v.Sig + ":sweep"
				v.Detail = fmt.Sprintf("end-offset sweep shape=%s end=%d (file size %d): %s", shape, e, size, v.Detail)
				return v, true
			}
		}
		w.Apply(Op{K: "put", Key: "a", VC: "S"})
		if c, d := w.CheckReads(); c != "" {
			w.Destroy()
			return viol("C02", "after-append:"+c, "after-append:"+c+":sweep", fmt.Sprintf("end-offset sweep shape=%s end=%d: after appending to the reopened file: %s", shape, e, d)), true
		}
		if v := crossRestart(w, []Cfg{cfg, mm}, cfg, res); v != nil {
			w.Destroy()
			v.Sig = v.Sig + ":sweep"
			v.Detail = fmt.Sprintf("end-offset sweep shape=%s end=%d, after one more append: %s", shape, e, v.Detail)
			return v, true
		}
		w.Destroy()
		return nil, true
	}
	return nil, false
}

func sweepTasks(tier string) []Task {
	var tasks []Task
	chunk := 512
	for _, shape := range []string{"one", "padded", "batch"} {
		for lo := 0; lo < 32768; lo += chunk {
			shape, lo := shape, lo
			if tier == "quick" && !(lo < 1024 || lo >= 32768-1024 || (lo/chunk)%8 == 3) {
				continue
			}
			tasks = append(tasks, Task{Level: "sweep-" + shape, Name: fmt.Sprintf("sweep %s %d..%d", shape, lo, lo+chunk-1), Fn: func(res *TaskResult) {
				for e := lo; e < lo+chunk; e++ {
					announce(func() string { return fmt.Sprintf("sweep %s end=%d", shape, e) })
					v, hit := sweepOne(shape, e, res)
					if hit {
						res.count("offsets_hit:"+shape, 1)
						res.Nontrivial++
					} else {
						res.count("offsets_unreachable:"+shape, 1)
					}
					if v != nil {
						v.Replay = mustJSON(map[string]any{"engine": "sweep", "property": "C02", "shape": shape, "end": e})
						res.Violations = append(res.Violations, *v)
						if len(res.Violations) >= 3 {
							return
						}
					}
				}
				if len(res.Samples) == 0 {
					res.Samples = append(res.Samples, fmt.Sprintf("sweep shape=%s end offsets %d..%d", shape, lo, lo+chunk-1))
				}
			}})
		}
	}
	return tasks
}

func init() {
	register(&Check{
		Prop:   "C02",
		Engine: "seq",
		Rule:   "operation sequences with cross-configuration restarts (every restart reopens copies under every reader configuration, twice) for all (writer, reader) pairs; plus the end-offset sweep (one record / record after tail padding / batch flush ending at every offset of a block, reopened under both back-ends, appended to, reopened again). non-trivial = sequences with a restart after a batch or merge, and sweep offsets actually hit",
		Assumptions: []string{
			"reader configurations = the 12 single-dimension variants of the default (index type, shard count, I/O type, sync strategy, DataFileSize 64/130/200)",
			"directories are copied file by file between Close and Open (no concurrent access)",
		},
		Tasks: c02Tasks,
		Bounds: func(tier string) map[string]any {
			if tier == "quick" {
				return map[string]any{"pairs": "all 144 (writer,reader) pairs at depth 2; ring of 12 pairs at depth 3 dev<=2", "sweep": "offsets 0..1023, 31744..32767 and every 8th 512-block, 3 shapes"}
			}
			return map[string]any{"pairs": "all 144 pairs at depth 3 dev<=2; ring at depth 4 dev<=2", "sweep": "all 32768 end offsets x 3 shapes x 2 back-ends"}
		},
		Replay: func(raw json.RawMessage) {
			var m map[string]any
			json.Unmarshal(raw, &m)
			if m["engine"] == "sweep" {
				var res TaskResult
				v, hit := sweepOne(m["shape"].(string), int(m["end"].(float64)), &res)
				fmt.Println("hit:", hit)
				if v != nil {
					fmt.Printf("VIOLATION clause=%s\n%s\n", v.Clause, v.Detail)
					os.Exit(1)
				}
				fmt.Println("no violation on this tree")
				return
			}
			var r struct {
				seqReplay
				Extra c02Extra `json:"extra"`
			}
			json.Unmarshal(raw, &r)
			switch r.Engine {
			case "fault":
				seqReplayMain(raw, runC01Fault)
				return
			case "batch-staging-fault":
				seqReplayMain(raw, runBatchStagingFault)
				return
			}
			readers := r.Extra.Readers
			if len(readers) == 0 {
				readers = c02Readers("quick")
			}
			seqReplayMain(raw, makeRunC02(r.Extra.Writer, r.Extra.Reader, readers))
		},
	})
}

// runBatchStagingFault: a batch whose STAGING call fails (an overflow flush or its rotation refused by the device) leaves
// the caller with a half-staged batch it can only Commit (there is no rollback). Whatever that Commit makes of it, the
// mapping the live database then shows is the mapping the next restart shows. Every I/O call of the whole batch
// operation fails once.
func runBatchStagingFault(cfg Cfg, keys []string, ops []Op, res *TaskResult) *Violation {
	hist, last := ops[:len(ops)-1], ops[len(ops)-1]
	if last.K != "batch" {
		return nil
	}
	n := -1
	for k := -1; n < 0 || k < n; k++ {
		beginExecution()
		w := NewWorld(cfg, keys)
		res.Execs++
		if err := w.Open(); err != nil {
			w.Destroy()
			return nil
		}
		ok := true
		for _, op := range hist {
			if ar := w.Apply(op); ar.Err != nil || w.Dead {
				ok = false
				break
			}
			res.Transitions++
		}
		if !ok {
			w.Destroy()
			return nil
		}
		calls, injectedAt := 0, ""
		iorec.Before = func(op, path, path2 string, nn int64) error {
			if op == "read" {
				return nil
			}
			calls++
			if calls-1 == k {
				injectedAt = fmt.Sprintf("call #%d %s %s", k, op, filepath.Base(path))
				return &os.PathError{Op: op, Path: path, Err: syscall.EIO}
			}
			return nil
		}
		ar := w.Apply(last) // (applyBatch commits what is staged when a staging call fails: the only way to release the lock)
		iorec.Before = nil
		res.Transitions++
		if k < 0 {
			n = calls
			w.Destroy()
			continue
		}
		fail := func(clause, detail string) *Violation {
			w.Destroy()
			sig := clause
			if ar.Err != nil && !strings.HasPrefix(ar.Err.Error(), "Batch.") {
				// the failing call was inside Commit itself, after earlier pieces of the batch had been flushed and applied
				// to the index (open finding KF-6); a failing STAGING call has the plain signature
				sig += ":commit-after-flushed-pieces"
			}
			return &Violation{Prop: "C02", Clause: clause, Sig: sig, Detail: fmt.Sprintf("cfg=%s trace=[%s] with %s failing during the batch (staging calls and Commit)\n%s", cfg, traceString(ops), injectedAt, detail),
				Replay: mustJSON(seqReplay{Engine: "batch-staging-fault", Prop: "C02", Cfg: cfg, Keys: keys, Ops: ops, Trace: traceString(ops), Extra: map[string]int{"fault_at": k}})}
		}
		if errClass(ar.Err) == "panic" || w.Dead || w.DB == nil {
			res.count("panicked_or_dead_not_judged_here", 1)
			w.Destroy()
			continue
		}
		res.Evals++
		res.count("faults_injected", 1)
		d1 := w.DumpDB()
		if err := w.Close(); err != nil {
			w.Destroy()
			continue
		}
		if err := w.Open(); err != nil {
			return fail("staging-fault-restart", fmt.Sprintf("the batch returned %s; after a clean Close, Open fails: %s", errClass(ar.Err), panicDetail(err)))
		}
		d2 := w.DumpDB()
		if d1.Err == "" && !dumpEqual(d1, d2) {
			v := fail("staging-fault-live-differs-from-restart", fmt.Sprintf("the batch returned %s\nlive mapping afterwards: %s\nafter the restart:       %s", errClass(ar.Err), d1, d2))
			if isKnown(v) {
				addViolation(res, v)
				res.count("known_suppressed", 1)
				continue
			}
			return v
		}
		w.Destroy()
	}
	res.Nontrivial++
	return nil
}

package main

import (
	"encoding/json"
	"errors"
	"fmt"

	kv "github.com/XiXi-2024/xixi-kv"
)

// C05 — batch staging semantics. The batch is opened up: pre-history (plain ops), Begin, staging
// steps with Batch.Get of every key after each step, Commit, reuse attempts, restart.

func c05Pre() []Op {
	return []Op{
		{K: "put", Key: "a", VC: "S"},
		{K: "put", Key: "b", VC: "S"},
		{K: "put", Key: "a", VC: "L"},
		{K: "put", Key: "b", VC: "L"},
		{K: "del", Key: "a"},
	}
}

func c05Stage() []Op {
	return []Op{
		{K: "put", Key: "a", VC: "S"},
		{K: "put", Key: "b", VC: "S"},
		{K: "del", Key: "a"},
		{K: "del", Key: "b"},
		{K: "put", Key: "a", VC: "L", Dev: true},
		{K: "put", Key: "b", VC: "L", Dev: true},
		{K: "put", Key: "c", VC: "S", Dev: true},
		{K: "del", Key: "c", Dev: true},
		{K: "put", Key: "a", VC: "E", Dev: true},  // empty value: equal to what a staged delete leaves behind
		{K: "put", Key: "b", VC: "S2", Dev: true}, // the same bytes as the previous put(b,S2): a no-op restage
	}
}

var keysABC = []string{"a", "b", "c"}

type c05Trace struct {
	Pre   []Op `json:"pre"`
	Stage []Op `json:"stage"`
}

// runC05 executes one (pre-history, staging sequence) pair. ops = pre ++ [begin] ++ stage.
func runC05(cfg Cfg, keys []string, ops []Op, res *TaskResult) *Violation {
	split := 0
	for i, o := range ops {
		if o.K == "begin" {
			split = i
		}
	}
	pre, stage := ops[:split], ops[split+1:]
	beginExecution()
	w := NewWorld(cfg, keys)
	defer w.Destroy()
	res.Execs++
	if err := w.Open(); err != nil {
		return viol("C05", "open-fresh", "open-fresh", panicDetail(err))
	}
	for _, op := range pre {
		ar := w.Apply(op)
		res.Transitions++
		if ar.Err != nil {
			return nil // pre-history failures are C01's business
		}
	}
	_, _, older := w.DB.VerifFiles()
	type ov struct {
		v   string
		del bool
	}
	overlay := map[string]ov{}
	var order []string
	var v *Violation
	staged := 0
	err := w.guard(func() error {
		b := w.DB.NewBatch(kv.BatchOptions{Sync: c05BatchSync})
		committed := false
		defer func() {
			if !committed && !w.Dead {
				func() { defer func() { recover() }(); b.Commit() }()
			}
		}()
		checkGets := func(when string) *Violation {
			for _, k := range append(append([]string{}, keys...), "zz-never") {
				got, err := b.Get([]byte(k))
				res.Evals++
				var want string
				found := false
				if o, ok := overlay[k]; ok {
					if !o.del {
						want, found = o.v, true
					}
				} else if mv, ok := w.Model[k]; ok {
					want, found = mv, true
				}
				switch {
				case found && err != nil:
					return viol("C05", "batch-get-missing", "batch-get-missing", fmt.Sprintf("%s: Batch.Get(%q) = %s, layered model has %s (older files: %d)", when, k, errClass(err), short(want), len(older)))
				case found && string(got) != want:
					return viol("C05", "batch-get-wrong", "batch-get-wrong", fmt.Sprintf("%s: Batch.Get(%q) = %s, layered model has %s (older files: %d)", when, k, short(string(got)), short(want), len(older)))
				case !found && err == nil:
					return viol("C05", "batch-get-phantom", "batch-get-phantom", fmt.Sprintf("%s: Batch.Get(%q) = %s, layered model: not found", when, k, short(string(got))))
				case !found && !errors.Is(err, kv.ErrKeyNotFound):
					return viol("C05", "batch-get-error", "batch-get-error:"+errClass(err), fmt.Sprintf("%s: Batch.Get(%q) = %s, layered model: not found", when, k, errClass(err)))
				}
			}
			return nil
		}
		if v = checkGets("after NewBatch"); v != nil {
			return nil
		}
		for i, s := range stage {
			w.Step++
			res.Transitions++
			switch s.K {
			case "put":
				val := w.value(s.Key, s.VC, s.Arg)
				if err := b.Put([]byte(s.Key), val); err != nil {
					res.count("unexpected_errors", 1)
					return nil
				}
				overlay[s.Key] = ov{v: string(val)}
				order = append(order, s.Key)
				staged++
			case "del":
				_, inModel := w.Model[s.Key]
				_, inOverlay := overlay[s.Key]
				if err := b.Delete([]byte(s.Key)); err != nil {
					res.count("unexpected_errors", 1)
					return nil
				}
				overlay[s.Key] = ov{del: true}
				order = append(order, s.Key)
				if inModel || inOverlay {
					staged++
				}
			}
			if v = checkGets(fmt.Sprintf("after staging step %d %s", i, s)); v != nil {
				return nil
			}
		}
		committed = true
		if err := b.Commit(); err != nil {
			v = viol("C05", "commit-error", "commit-error:"+errClass(err), "Commit: "+errClass(err))
			return nil
		}
		res.Transitions++
		for _, k := range order {
			if o := overlay[k]; o.del {
				delete(w.Model, k)
			} else {
				w.Model[k] = o.v
			}
		}
		if c, d := w.CheckReads(); c != "" {
			v = viol("C05", "after-commit:"+c, "after-commit:"+c, "after Commit: "+d+"\nmodel="+modelString(w.Model))
			return nil
		}
		res.Evals++
		if staged == 0 {
			res.count("empty_commits", 1)
		}
		// a committed batch rejects further use
		reuse := []struct {
			name string
			f    func() error
		}{
			{"Put", func() error { return b.Put([]byte("a"), []byte("reuse")) }},
			{"Delete", func() error { return b.Delete([]byte("a")) }},
			{"Delete(b)", func() error { return b.Delete([]byte("b")) }},
			{"Get", func() error { _, e := b.Get([]byte("a")); return e }},
			{"Commit", func() error { return b.Commit() }},
		}
		for _, r := range reuse {
			err := r.f()
			res.Evals++
			if !errors.Is(err, kv.ErrBatchCommitted) {
				kind := "committed"
				if staged == 0 {
					kind = "empty-committed"
				}
				v = viol("C05", "reuse-after-commit", "reuse-after-commit:"+kind+":"+r.name, fmt.Sprintf("%s on a %s batch returned %s, want ErrBatchCommitted", r.name, kind, errClass(err)))
				return nil
			}
		}
		return nil
	})
	if err != nil {
		return viol("C05", "panic", "panic", "batch use: "+panicDetail(err))
	}
	if v != nil {
		return v
	}
	// reuse attempts changed nothing; the database is usable (not left locked)
	if c, d := w.CheckReads(); c != "" {
		return viol("C05", "after-reuse:"+c, "after-reuse:"+c, "after rejected reuse: "+d+"\nmodel="+modelString(w.Model))
	}
	ar := w.Apply(Op{K: "put", Key: "b", VC: "S"})
	if ar.Err != nil {
		return viol("C05", "db-unusable-after-batch", "db-unusable-after-batch", "Put after the batch: "+panicDetail(ar.Err))
	}
	ar = w.Apply(Op{K: "restart"})
	if ar.Clause != "" {
		return viol("C05", ar.Clause, ar.Clause, ar.Detail)
	}
	if c, d := w.CheckReads(); c != "" {
		return viol("C05", "after-restart:"+c, "after-restart:"+c, "after restart: "+d+"\nmodel="+modelString(w.Model))
	}
	res.Evals++
	res.States = append(res.States, w.StateHash())
	if len(older) > 0 && len(order) > len(overlay) {
		res.Nontrivial++ // values in rotated files and a repeated operation on one key
	}
	return nil
}

// c05BatchSync: BatchOptions.Sync of the batch under exploration (set per task; the overflow path differs).
var c05BatchSync bool

func c05Tasks(tier string) []Task {
	cfgs := []Cfg{defaultCfg}
	c200 := defaultCfg
	c200.FileSize = 200
	cb := defaultCfg
	cb.Index = 1 // B-tree and skip list keep the key slice handed to them: pooled records must not recycle it
	cs := c200
	cs.Index = 2
	cfgs = append(cfgs, c200, cb, cs)
	blk := blockCfg()
	blkB := blk
	blkB.Index = 1
	if tier != "thorough" {
		return append(c05Level(cfgs, 2, 4, 2), c05LevelA("block-", []Cfg{blk, blkB}, c05BlockPre, c05BlockStage, 1, 3, 1)...)
	}
	cm := defaultCfg
	cm.IO = 1
	cfgs = append(cfgs, cm)
	// long staging sequences after short pre-histories, and the quick tier's staging after longer pre-histories
	tasks := append(c05Level(cfgs, 2, 5, 3), c05Level(cfgs, 3, 4, 2)...)
	blkM := blk
	blkM.IO = 1
	return append(tasks, c05LevelA("block-", []Cfg{blk, blkB, blkM}, c05BlockPre, c05BlockStage, 2, 4, 2)...)
}

func c05Level(cfgs []Cfg, preDepth, stageDepth, dev int) []Task {
	return c05LevelA("", cfgs, c05Pre, c05Stage, preDepth, stageDepth, dev)
}

// block family: the batch flush (one write of several records, a running cursor) next to 32 KiB block boundaries -
// a staged record that ends 2-3 bytes before a block end (the tail is padded), a record of two chunks, records behind them
func c05BlockPre() []Op {
	return []Op{{K: "put", Key: "a", VC: "S"}, {K: "put", Key: "b", VC: "F", Arg: 20000}}
}

func c05BlockStage() []Op {
	return []Op{
		{K: "put", Key: "b", VC: "B", Arg: 11}, // 11 = 3 + the 8 further bytes of a batch id in the record header
		{K: "put", Key: "a", VC: "S"},
		{K: "put", Key: "c", VC: "S"},
		{K: "del", Key: "a"},
		{K: "put", Key: "c", VC: "F", Arg: 40000, Dev: true},
		{K: "put", Key: "b", VC: "B", Arg: 8, Dev: true}, // ends exactly on the block boundary
	}
}

func c05LevelA(prefix string, cfgs []Cfg, preAlpha, stageAlpha func() []Op, preDepth, stageDepth, dev int) []Task {
	var pres [][]Op
	var gen func(p []Op)
	gen = func(p []Op) {
		pres = append(pres, append([]Op{}, p...))
		if len(p) == preDepth {
			return
		}
		for _, o := range preAlpha() {
			gen(append(p, o))
		}
	}
	gen(nil)
	var tasks []Task
	for ci, cfg := range cfgs {
		for _, pre := range pres {
			cfg, pre := cfg, pre
			syncOpt := ci%2 == 1 // alternate configurations use BatchOptions{Sync:true}
			level := fmt.Sprintf("%spre<=%d-stage%d-dev%d", prefix, preDepth, stageDepth, dev)
			tasks = append(tasks, Task{Level: level, Name: fmt.Sprintf("%s sync=%v pre=[%s]", cfg, syncOpt, traceString(pre)), Fn: func(res *TaskResult) {
				c05BatchSync = syncOpt
				alpha := stageAlpha()
				enumSeq(alpha, stageDepth, dev, nil, func(seq []Op) bool {
					ops := append(append(append([]Op{}, pre...), Op{K: "begin"}), seq...)
					announce(func() string { return cfg.String() + " :: " + traceString(ops) })
					v := runC05(cfg, keysABC, ops, res)
					if v != nil {
						var d TaskResult
						if v2 := runC05(cfg, keysABC, ops, &d); v2 == nil || v2.Clause != v.Clause {
							res.Err = "non-reproducible: " + v.Detail
							return false
						}
						v.Replay = mustJSON(seqReplay{Engine: "seq", Prop: "C05", Cfg: cfg, Keys: keysABC, Ops: ops, Trace: traceString(ops)})
						v.Detail = fmt.Sprintf("cfg=%s trace=[%s]\n%s", cfg, traceString(ops), v.Detail)
						res.Violations = append(res.Violations, *v)
						return len(res.Violations) < 3
					}
					if len(res.Samples) == 0 {
						res.Samples = append(res.Samples, cfg.String()+" :: "+traceString(ops))
					}
					return true
				})
			}})
		}
	}
	return tasks
}

func init() {
	register(&Check{
		Prop:   "C05",
		Engine: "seq",
		Rule:   "all pre-histories (<= pre depth) x all staging sequences (depth, deviation bound) with Batch.Get of every key after every staging step, Commit, 5 reuse attempts, restart; non-trivial = a value lives in a rotated file and one key is staged more than once",
		Assumptions: []string{
			"key universe {a,b,c}; DataFileSize 130 (2 staged S puts overflow mid-way) and 200 (3 do); hash map, B-tree and skip-list index; BatchOptions.Sync false and true (alternating configurations)",
			"a Commit of a batch that staged nothing is also treated as a committed batch (reuse must be rejected)",
		},
		Tasks: c05Tasks,
		Bounds: func(tier string) map[string]any {
			if tier == "quick" {
				return map[string]any{"pre_depth": 2, "stage_depth": 4, "deviation_bound": 2, "configs": 2, "staging_sequences": countSeq(c05Stage(), 4, 2)}
			}
			return map[string]any{"levels": "pre<=2 x stage 5 dev 3; pre<=3 x stage 4 dev 2", "configs": 5, "staging_sequences_d5b3": countSeq(c05Stage(), 5, 3), "staging_sequences_d4b2": countSeq(c05Stage(), 4, 2)}
		},
		Replay: func(raw json.RawMessage) { seqReplayMain(raw, runC05) },
	})
}

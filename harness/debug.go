package main

import (
	"fmt"
	"github.com/XiXi-2024/xixi-kv/verifrt/vmmap"
	"os"
	"path/filepath"
	"strconv"
	"strings"
	"time"

	"github.com/XiXi-2024/xixi-kv/verifrt/iorec"
)

// parseTrace parses "put a S; del a; merge; restart; batch[put a S, del b]; put b B 3".
func parseTrace(s string) []Op {
	var ops []Op
	for _, part := range strings.Split(s, ";") {
		part = strings.TrimSpace(part)
		if part == "" {
			continue
		}
		ops = append(ops, parseOp(part))
	}
	return ops
}

func parseOp(part string) Op {
	if strings.HasPrefix(part, "batch") {
		body := strings.TrimSuffix(strings.TrimPrefix(strings.TrimSpace(strings.TrimPrefix(part, "batch")), "["), "]")
		var sub []Op
		for _, b := range strings.Split(body, ",") {
			if strings.TrimSpace(b) != "" {
				sub = append(sub, parseOp(strings.TrimSpace(b)))
			}
		}
		return Op{K: "batch", Sub: sub}
	}
	f := strings.Fields(part)
	op := Op{K: f[0]}
	if (f[0] == "merge" || f[0] == "restartfs") && len(f) > 1 {
		op.Arg, _ = strconv.Atoi(f[1])
		return op
	}
	if len(f) > 1 {
		op.Key = f[1]
	}
	if len(f) > 2 {
		op.VC = f[2]
	}
	if len(f) > 3 {
		op.Arg, _ = strconv.Atoi(f[3])
	}
	return op
}

func listDirs(w *World) string {
	var b strings.Builder
	for _, dir := range []string{w.Dir, w.Dir + "-merge"} {
		ents, err := os.ReadDir(dir)
		if err != nil {
			fmt.Fprintf(&b, "  %s: (absent)\n", filepath.Base(dir))
			continue
		}
		fmt.Fprintf(&b, "  %s:", filepath.Base(dir))
		for _, e := range ents {
			st, _ := e.Info()
			fmt.Fprintf(&b, " %s(%d)", e.Name(), st.Size())
		}
		b.WriteString("\n")
	}
	return b.String()
}

func debugTrace(cfg Cfg, trace string) {
	ops := parseTrace(trace)
	beginExecution()
	iorec.After = func(ev *iorec.Event) {
		fmt.Printf("    io#%d %s %s %s off=%d n=%d %s\n", ev.Seq, ev.Op, filepath.Base(ev.Path), filepath.Base(ev.Path2), ev.Off, ev.N, ev.Err)
	}
	w := NewWorld(cfg, keysABC)
	defer func() {
		w.Destroy()
		fmt.Printf("mappings left behind after Close: %d\n", vmmap.ReleaseAll())
	}()
	fmt.Println("open:", w.Open())
	for i, op := range ops {
		t0 := time.Now()
		ar := w.Apply(op)
		fmt.Printf("step %d %s -> %s %s (%v)\n", i, op, errClass(ar.Err), ar.Detail, time.Since(t0))
		if ar.Err != nil {
			fmt.Println("   ", panicDetail(ar.Err))
		}
		if w.DB == nil || w.Dead {
			break
		}
		c, d := w.CheckReads()
		t, r, bw := w.DB.VerifCounters()
		fmt.Printf("   reads: %s %s | model=%s | stat=%+v total=%d reclaim=%d bytesWrite=%d\n", c, d, modelString(w.Model), *w.DB.Stat(), t, r, bw)
		fmt.Print(listDirs(w))
	}
}

package main

import (
	"encoding/json"
	"fmt"
)

// ---- shared alphabets -------------------------------------------------------------------------

var keysAB = []string{"a", "b"}

func batchBodies() [][]Op {
	p := func(k, vc string) Op { return Op{K: "put", Key: k, VC: vc} }
	d := func(k string) Op { return Op{K: "del", Key: k} }
	return [][]Op{
		{p("a", "S")},
		{p("a", "S"), p("b", "S")},
		{d("a")},
		{p("a", "S"), d("a")},
		{p("a", "S"), d("a"), p("a", "S")},
		{d("a"), p("a", "S")},
		{p("a", "S"), p("a", "S")},
		{p("a", "L"), p("b", "L"), d("a")},
		{p("a", "S"), p("a", "H"), p("b", "S"), p("b", "H")}, // restaging with larger values: the size estimate must grow
		{p("a", "S"), p("a", "G"), p("b", "S"), p("b", "G")}, // ... where each restage alone still fits
	}
}

// tinyAlphabet: C01's alphabet for the tiny-file family.
func tinyAlphabet(c Cfg) []Op {
	a := []Op{
		{K: "put", Key: "a", VC: "S"},
		{K: "put", Key: "b", VC: "S"},
		{K: "del", Key: "a"},
		{K: "del", Key: "b"},
		{K: "put", Key: "a", VC: "L", Dev: true},
		{K: "put", Key: "b", VC: "L", Dev: true},
		{K: "put", Key: "a", VC: "E", Dev: true},
		{K: "put", Key: "b", VC: "X", Dev: true},
		{K: "sync", Dev: true},
		{K: "merge", Dev: true},
		{K: "merge", Arg: 1, Dev: true}, // same, scanning the rotated files in descending id order
		{K: "restart", Dev: true},
	}
	for _, body := range batchBodies() {
		a = append(a, Op{K: "batch", Sub: body, Dev: true})
	}
	return a
}

// blockAlphabet: block family (DataFileSize 96 KiB): records landing around block boundaries.
func blockAlphabet(c Cfg) []Op {
	a := []Op{
		{K: "put", Key: "a", VC: "S"},
		{K: "del", Key: "a"},
		{K: "put", Key: "b", VC: "M", Dev: true},
		{K: "put", Key: "a", VC: "E", Dev: true},
		{K: "restart", Dev: true},
		{K: "merge", Dev: true},
		{K: "batch", Sub: []Op{{K: "put", Key: "a", VC: "S"}, {K: "put", Key: "b", VC: "B", Arg: 3}}, Dev: true},
		{K: "batch", Sub: []Op{{K: "put", Key: "a", VC: "S"}, {K: "put", Key: "b", VC: "M"}}, Dev: true}, // a multi-block value as a non-first staged record
		// a staged record that ends 3 bytes before a block end (11 = 3 + the 8 further header bytes of a batch id) with records behind it in the same flush
		{K: "batch", Sub: []Op{{K: "put", Key: "b", VC: "B", Arg: 11}, {K: "put", Key: "a", VC: "S"}}, Dev: true},
	}
	for _, delta := range []int{9, 8, 7, 6, 1, 0, -1} {
		a = append(a, Op{K: "put", Key: "b", VC: "B", Arg: delta, Dev: true})
	}
	return a
}

func tinyCfgs() []Cfg {
	out := cfg1(defaultCfg)
	for _, fs := range []int64{64, 200} {
		c := defaultCfg
		c.FileSize = fs
		out = append(out, c)
	}
	return out
}

// wideCfg: more shards than the implementation's maximum (1024); expensive, used at shallow depth only.
func wideCfg() Cfg {
	c := defaultCfg
	c.Shards = 2048
	return c
}

func blockCfg() Cfg {
	c := defaultCfg
	c.FileSize = 96 * 1024
	return c
}

// oddBlockCfg: a DataFileSize that is not a multiple of the 32 KiB block and smaller than the 3-block value
func oddBlockCfg() Cfg {
	c := defaultCfg
	c.FileSize = 40001
	return c
}

// bothPools adds, for every configuration, the variant in which sync.Pool hands back the oldest object first.
func bothPools(cs ...Cfg) []Cfg {
	out := append([]Cfg{}, cs...)
	for _, c := range cs {
		c.Pool = 1
		out = append(out, c)
	}
	return out
}

// ---- C01 --------------------------------------------------------------------------------------

func runC01(cfg Cfg, keys []string, ops []Op, res *TaskResult) *Violation {
	rot, over := false, false
	v := RunTrace(cfg, keys, ops, res, func(w *World, i int, op Op, ar ApplyResult) *Violation {
		if cls := errClass(ar.Err); cls == "panic" {
			return viol("C01", "panic", "panic:"+op.K, fmt.Sprintf("step %d %s: %s", i, op, panicDetail(ar.Err)))
		}
		if ar.Clause != "" {
			return viol("C01", ar.Clause, ar.Clause+":"+errClass(ar.Err), fmt.Sprintf("step %d %s: %s", i, op, ar.Detail))
		}
		res.Evals++
		if c, d := w.CheckReads(); c != "" {
			return viol("C01", c, c+":after-"+op.K, fmt.Sprintf("step %d %s: %s\nmodel=%s", i, op, d, modelString(w.Model)))
		}
		if ar.Err != nil {
			res.count("unexpected_errors", 1)
			res.count("unexpected_error:"+op.K+":"+errClass(ar.Err), 1)
		}
		if i == len(ops)-1 {
			res.States = append(res.States, w.StateHash())
			_, _, older := w.DB.VerifFiles()
			if len(older) > 0 {
				rot = true
			}
			if len(w.Model) < len(w.Hist) || w.Step > len(w.Model) {
				over = true
			}
		}
		return nil
	})
	if rot {
		res.count("traces_with_rotation", 1)
	}
	if rot && over {
		res.Nontrivial++
	}
	return v
}

func init() {
	register(&Check{
		Prop:   "C01",
		Engine: "seq",
		Rule:   "every maximal operation sequence within (depth, deviation bound) over the alphabet is executed once per configuration; a sequence is non-trivial when it rotated at least one data file and overwrote or deleted at least one key",
		Assumptions: []string{
			"key universe {a,b}; value classes S(3B) E(empty) L(30% of DataFileSize) X(>DataFileSize) B(delta: record ends delta bytes before a 32KiB boundary) M(3 blocks)",
			"faults are not injected; a mutation returning an unexpected error is modelled as no effect and counted (unexpected_errors)",
			"sync.Pool is replaced by a deterministic free list, explored in both orders (newest first, oldest first)",
		},
		Tasks: func(tier string) []Task {
			if tier == "quick" {
				return seqTasks("C01", []seqLevel{
					{Name: "long-keys-d5", Cfgs: longKeyCfgs(), Keys: c18LongKeys, Alpha: longKeyMergeAlphabet, Depth: 5, Dev: 3, Run: runC01},
					{Name: "same-offset-d6", Cfgs: []Cfg{blockCfg()}, Keys: keysAB, Alpha: sameOffsetAlphabet, Depth: 6, Dev: 6, Run: runC01},
					{Name: "tiny-d3b2", Cfgs: tinyCfgs(), Keys: keysAB, Alpha: tinyAlphabet, Depth: 3, Dev: 2, Run: runC01},
					{Name: "tiny-d4b2", Cfgs: bothPools(defaultCfg), Keys: keysAB, Alpha: tinyAlphabet, Depth: 4, Dev: 2, Run: runC01},
					{Name: "block-d3b2", Cfgs: append(bothPools(blockCfg()), oddBlockCfg()), Keys: keysAB, Alpha: blockAlphabet, Depth: 3, Dev: 2, Run: runC01},
					deleteBatchLevel(runC01, 3),
				})
			}
			bt := blockCfg()
			bt2 := bt
			bt2.Index = 1
			bt3 := bt
			bt3.IO = 1
			return seqTasks("C01", []seqLevel{
				{Name: "long-keys-d6", Cfgs: longKeyCfgs(), Keys: c18LongKeys, Alpha: longKeyMergeAlphabet, Depth: 6, Dev: 3, Run: runC01},
				{Name: "same-offset-d7", Cfgs: []Cfg{blockCfg()}, Keys: keysAB, Alpha: sameOffsetAlphabet, Depth: 7, Dev: 7, Run: runC01},
				{Name: "tiny-d4b2", Cfgs: tinyCfgs(), Keys: keysAB, Alpha: tinyAlphabet, Depth: 4, Dev: 2, Run: runC01},
				{Name: "tiny-d5b3", Cfgs: bothPools(defaultCfg), Keys: keysAB, Alpha: tinyAlphabet, Depth: 5, Dev: 3, Split: 2, Run: runC01},
				{Name: "block-d4b3", Cfgs: bothPools(bt, bt2, bt3), Keys: keysAB, Alpha: blockAlphabet, Depth: 4, Dev: 3, Run: runC01},
			})
		},
		Bounds: func(tier string) map[string]any {
			m := map[string]any{}
			if tier == "quick" {
				m["tiny"] = fmt.Sprintf("depth 3 dev<=2 x %d cfgs (%d seq each); depth 4 dev<=2 default cfg (%d seq)", len(tinyCfgs()), countSeq(tinyAlphabet(defaultCfg), 3, 2), countSeq(tinyAlphabet(defaultCfg), 4, 2))
				m["block"] = fmt.Sprintf("depth 3 dev<=2 (%d seq)", countSeq(blockAlphabet(defaultCfg), 3, 2))
			} else {
				m["tiny"] = fmt.Sprintf("depth 4 dev<=2 x %d cfgs (%d seq each); depth 5 dev<=3 default cfg (%d seq)", len(tinyCfgs()), countSeq(tinyAlphabet(defaultCfg), 4, 2), countSeq(tinyAlphabet(defaultCfg), 5, 3))
				m["block"] = fmt.Sprintf("depth 4 dev<=3 x 3 cfgs (%d seq each)", countSeq(blockAlphabet(defaultCfg), 4, 3))
			}
			return m
		},
		Replay: func(raw json.RawMessage) { seqReplayMain(raw, runC01) },
	})
}

package main

import (
	"encoding/json"
	"fmt"
	"os"
	"sort"
	"strings"

	kv "github.com/XiXi-2024/xixi-kv"
	"github.com/XiXi-2024/xixi-kv/datafile"
	"github.com/XiXi-2024/xixi-kv/index"
)

// C10 — iterators, ListKeys and Fold enumerate a sorted, complete, stable snapshot.

var c10Universe, c10Targets, c10Prefixes []string
var c10NewKey string

// two key universes: nested ASCII keys, and keys around the byte values 0x00 / 0xFF (a prefix whose last byte is
// 0xFF has no "prefix + 1" upper bound; a key that extends another by 0x00 is its immediate successor)
var c10Universes = []struct {
	Keys, Targets, Prefixes []string
	NewKey                  string
}{
	{[]string{"a", "ab", "abc", "b", "ba", "c"}, []string{"0", "a", "aa", "ab", "abc", "b", "ba", "bb", "c", "d"}, []string{"", "a", "ab", "b", "x"}, "aba"},
	{[]string{"k", "k\x00", "k\xff", "k\xff\xff", "l", "\xff"}, []string{"\x00", "k", "k\x00", "k\x01", "k\xfe", "k\xff", "k\xff\xff", "k\xff\xff\x00", "l", "\xff", "\xff\xff"}, []string{"k", "k\xff", "k\xff\xff", "\xff", "k\x00"}, "k\xff\x00"},
}

func c10SetUniverse(u int) {
	c10Universe, c10Targets, c10Prefixes, c10NewKey = c10Universes[u].Keys, c10Universes[u].Targets, c10Universes[u].Prefixes, c10Universes[u].NewKey
}

func init() { c10SetUniverse(0) }

// iterator call alphabet
type itCall struct {
	K string `json:"k"` // rewind next seek write
	T string `json:"t,omitempty"`
}

func (c itCall) String() string {
	if c.T != "" {
		return c.K + "(" + c.T + ")"
	}
	return c.K
}

func c10Alphabet() (first []itCall, rest []itCall, dev []bool) {
	first = append(first, itCall{K: "rewind"})
	first = append(first, itCall{K: "fresh"}) // no positioning call at all: a new iterator stands on its first key
	for _, t := range c10Targets {
		first = append(first, itCall{K: "seek", T: t})
	}
	rest = append(rest, itCall{K: "next"})
	dev = append(dev, false)
	rest = append(rest, itCall{K: "rewind"})
	dev = append(dev, true)
	for _, t := range c10Targets {
		rest = append(rest, itCall{K: "seek", T: t})
		dev = append(dev, true)
	}
	for _, w := range []string{"put-new", "overwrite", "delete"} {
		rest = append(rest, itCall{K: "write", T: w})
		dev = append(dev, true)
	}
	return
}

// iterModel is the sorted-slice cursor model.
type iterModel struct {
	keys   []string // in iteration order (filtered by prefix)
	vals   map[string]string
	idx    int
	rev    bool
	rewond bool // fresh or just rewound (any seek target allowed)
}

func newIterModel(keys []string, prefix string, rev bool, vals map[string]string) *iterModel {
	var ks []string
	for _, k := range keys {
		if strings.HasPrefix(k, prefix) {
			ks = append(ks, k)
		}
	}
	sort.Strings(ks)
	if rev {
		sort.Sort(sort.Reverse(sort.StringSlice(ks)))
	}
	return &iterModel{keys: ks, vals: vals, rev: rev, rewond: true}
}

func (m *iterModel) valid() bool { return m.idx < len(m.keys) }

// seekAllowed: the target lies at or ahead of the cursor in iteration order (or the iterator is fresh/rewound).
func (m *iterModel) seekAllowed(t string) bool {
	if m.rewond {
		return true
	}
	if !m.valid() {
		return false
	}
	cur := m.keys[m.idx]
	if m.rev {
		return t <= cur
	}
	return t >= cur
}

func (m *iterModel) seek(t string) {
	m.rewond = false
	for i, k := range m.keys {
		if (!m.rev && k >= t) || (m.rev && k <= t) {
			m.idx = i
			return
		}
	}
	m.idx = len(m.keys)
}

var c10States = map[uint64]struct{}{}

func c10FlushStates(res *TaskResult) {
	for h := range c10States {
		res.States = append(res.States, h)
	}
	c10States = map[uint64]struct{}{}
}

// realIter abstracts index-level and DB-level iterators.
type realIter interface {
	Rewind()
	Seek([]byte)
	Next()
	Valid() bool
	Key() []byte
	Val() (string, error)
	Close()
}

type idxIter struct{ it *index.IndexIterator }

func (i idxIter) Rewind()       { i.it.Rewind() }
func (i idxIter) Seek(k []byte) { i.it.Seek(k) }
func (i idxIter) Next()         { i.it.Next() }
func (i idxIter) Valid() bool   { return i.it.Valid() }
func (i idxIter) Key() []byte   { return i.it.Key() }
func (i idxIter) Close()        { i.it.Close() }
func (i idxIter) Val() (string, error) {
	p := i.it.Value()
	if p == nil {
		return "", fmt.Errorf("nil position")
	}
	return fmt.Sprintf("pos%d", p.Offset), nil
}

type dbIter struct{ it *kv.Iterator }

func (i dbIter) Rewind()       { i.it.Rewind() }
func (i dbIter) Seek(k []byte) { i.it.Seek(k) }
func (i dbIter) Next()         { i.it.Next() }
func (i dbIter) Valid() bool   { return i.it.Valid() }
func (i dbIter) Key() []byte   { return i.it.Key() }
func (i dbIter) Close()        { i.it.Close() }
func (i dbIter) Val() (string, error) {
	v, err := i.it.Value()
	return string(v), err
}

// c10Drive runs one call sequence on a real iterator and the model. write(kind) performs the
// interleaved write on the underlying structure. Returns (violation detail, pruned).
func c10Drive(it realIter, m *iterModel, calls []itCall, write func(kind string), res *TaskResult) (string, bool) {
	compare := func(after string) string {
		res.Evals++
		if it.Valid() != m.valid() {
			return fmt.Sprintf("after %s: Valid()=%v, model %v (model keys %q idx %d)", after, it.Valid(), m.valid(), m.keys, m.idx)
		}
		if !m.valid() {
			return ""
		}
		if k := string(it.Key()); k != m.keys[m.idx] {
			return fmt.Sprintf("after %s: Key()=%q, model %q (model keys %q idx %d)", after, k, m.keys[m.idx], m.keys, m.idx)
		}
		v, err := it.Val()
		if err != nil || v != m.vals[m.keys[m.idx]] {
			return fmt.Sprintf("after %s: Value()=%q/%v, value at creation %q", after, v, err, m.vals[m.keys[m.idx]])
		}
		return ""
	}
	for i, c := range calls {
		c10States[hash64(strings.Join(m.keys, ","), fmt.Sprint(m.idx, m.rewond))] = struct{}{}
		switch c.K {
		case "rewind":
			it.Rewind()
			m.idx, m.rewond = 0, true
		case "fresh":
			m.idx, m.rewond = 0, true
		case "next":
			if !m.valid() {
				// Next on an exhausted iterator: must stay invalid
				it.Next()
			} else {
				it.Next()
				m.idx++
			}
			m.rewond = false
		case "seek":
			if !m.seekAllowed(c.T) {
				return "", true
			}
			it.Seek([]byte(c.T))
			m.seek(c.T)
		case "write":
			write(c.T)
		}
		res.Transitions++
		if d := compare(fmt.Sprintf("call %d %s", i, c)); d != "" {
			return d, false
		}
	}
	return "", false
}

func subsetKeys(mask int) []string {
	var ks []string
	for i, k := range c10Universe {
		if mask&(1<<i) != 0 {
			ks = append(ks, k)
		}
	}
	return ks
}

// enumCalls enumerates first-call x rest sequences of length l with at most b deviant calls and at most one write.
func enumCalls(l, b int, visit func(calls []itCall) bool) {
	first, rest, dev := c10Alphabet()
	for _, f := range first {
		calls := []itCall{f}
		var rec func(d int, wrote bool) bool
		rec = func(d int, wrote bool) bool {
			if len(calls) == l+1 {
				return visit(calls)
			}
			for i, c := range rest {
				nd := d
				if dev[i] {
					nd++
					if nd > b {
						continue
					}
				}
				if c.K == "write" && wrote {
					continue
				}
				calls = append(calls, c)
				ok := rec(nd, wrote || c.K == "write")
				calls = calls[:len(calls)-1]
				if !ok {
					return false
				}
			}
			return true
		}
		if !rec(0, false) {
			return
		}
	}
}

type c10Replay struct {
	Level  string   `json:"level"` // index | db
	Mask   int      `json:"mask"`
	Rev    bool     `json:"reverse"`
	Index  int8     `json:"index"`
	Shards int      `json:"shards"`
	Prefix string   `json:"prefix"`
	Calls  []itCall `json:"calls"`
	U      int      `json:"universe,omitempty"` // index into c10Universes
}

func (r c10Replay) String() string {
	cs := make([]string, len(r.Calls))
	for i, c := range r.Calls {
		cs[i] = c.String()
	}
	return fmt.Sprintf("%s keys=%q reverse=%v index=%d shards=%d prefix=%q calls=[%s]", r.Level, subsetKeys(r.Mask), r.Rev, r.Index, r.Shards, r.Prefix, strings.Join(cs, " "))
}

// c10Index runs one index-level case.
func c10Index(r c10Replay, res *TaskResult) (string, bool) {
	keys := subsetKeys(r.Mask)
	ix := index.NewShardedIndex(index.IndexType(r.Index), r.Shards)
	vals := map[string]string{}
	for i, k := range keys {
		ix.Put([]byte(k), &datafile.DataPos{Fid: 1, Offset: uint32(i + 1), Size: 10})
		vals[k] = fmt.Sprintf("pos%d", i+1)
	}
	it := ix.Iterator(r.Rev)
	defer it.Close()
	m := newIterModel(keys, "", r.Rev, vals)
	res.Execs++
	write := func(kind string) {
		switch kind {
		case "put-new":
			ix.Put([]byte(c10NewKey), &datafile.DataPos{Fid: 2, Offset: 99, Size: 10})
		case "overwrite":
			if len(keys) > 0 {
				ix.Put([]byte(keys[len(keys)/2]), &datafile.DataPos{Fid: 2, Offset: 98, Size: 10})
			}
		case "delete":
			if len(keys) > 0 {
				ix.Delete([]byte(keys[len(keys)/2]))
			}
		}
	}
	return c10Drive(idxIter{it}, m, r.Calls, write, res)
}

// c10World builds the database of one (subset, index type, shard count); it is reused across call
// sequences (interleaved writes are undone after each sequence).
func c10World(r c10Replay) (*World, map[string]string, string) {
	keys := subsetKeys(r.Mask)
	cfg := defaultCfg
	cfg.Index, cfg.Shards, cfg.FileSize = r.Index, r.Shards, 1<<20
	beginExecution()
	w := NewWorld(cfg, c10Universe)
	if err := w.Open(); err != nil {
		w.Destroy()
		return nil, nil, "open: " + panicDetail(err)
	}
	vals := map[string]string{}
	for i, k := range keys {
		v := fmt.Sprintf("v%d-%s", i, k)
		if err := w.DB.Put([]byte(k), []byte(v)); err != nil {
			w.Destroy()
			return nil, nil, "put: " + err.Error()
		}
		vals[k] = v
	}
	return w, vals, ""
}

// c10DB runs one DB-level case on w (built by c10World for the same subset/type/shards).
func c10DB(w *World, vals map[string]string, r c10Replay, res *TaskResult) (string, bool) {
	keys := subsetKeys(r.Mask)
	res.Execs++
	var detail string
	var pruned bool
	err := w.guard(func() error {
		// ListKeys and Fold visit the same complete ordered snapshot
		sorted := append([]string{}, keys...)
		sort.Strings(sorted)
		var lk []string
		for _, k := range w.DB.ListKeys() {
			lk = append(lk, string(k))
		}
		if !equalStrings(lk, sorted) {
			detail = fmt.Sprintf("ListKeys = %q, want %q", lk, sorted)
			return nil
		}
		var fk []string
		bad := ""
		w.DB.Fold(func(k, v []byte) bool {
			fk = append(fk, string(k))
			if string(v) != vals[string(k)] {
				bad = fmt.Sprintf("Fold value of %q = %q, want %q", k, v, vals[string(k)])
			}
			return true
		})
		if !equalStrings(fk, sorted) || bad != "" {
			detail = fmt.Sprintf("Fold keys = %q, want %q %s", fk, sorted, bad)
			return nil
		}
		res.Evals += 2
		it := w.DB.NewIterator(kv.IteratorOptions{Prefix: []byte(r.Prefix), Reverse: r.Rev})
		defer it.Close()
		m := newIterModel(keys, r.Prefix, r.Rev, vals)
		var undo func()
		write := func(kind string) {
			switch kind {
			case "put-new":
				nk := c10NewKey
				w.DB.Put([]byte(nk), []byte("new"))
				undo = func() { w.DB.Delete([]byte(nk)) }
			case "overwrite":
				if len(keys) > 0 {
					k := keys[len(keys)/2]
					w.DB.Put([]byte(k), []byte("overwritten"))
					undo = func() { w.DB.Put([]byte(k), []byte(vals[k])) }
				}
			case "delete":
				if len(keys) > 0 {
					k := keys[len(keys)/2]
					w.DB.Delete([]byte(k))
					undo = func() { w.DB.Put([]byte(k), []byte(vals[k])) }
				}
			}
		}
		detail, pruned = c10Drive(dbIter{it}, m, r.Calls, write, res)
		if undo != nil {
			undo()
		}
		return nil
	})
	if err != nil {
		return panicDetail(err), false
	}
	return detail, pruned
}

func c10Tasks(tier string) []Task {
	l, b := 3, 2
	maxKeys := 4
	shardsIdx := []int{1, 2, 4, 16}
	dbL, dbB := 3, 2
	if tier == "thorough" {
		l, b, maxKeys = 4, 3, 6
		dbL, dbB = 4, 2
	}
	var tasks []Task
	popcnt := func(m int) int {
		c := 0
		for ; m != 0; m &= m - 1 {
			c++
		}
		return c
	}
	l0, b0, dbL0, dbB0 := l, b, dbL, dbB
	for u := range c10Universes {
		u := u
		c10SetUniverse(u)
		umax := maxKeys
		l, b, dbL, dbB := l0, b0, dbL0, dbB0
		if u > 0 && tier != "thorough" {
			umax = 2
		}
		if u > 0 && tier == "thorough" {
			// the byte-edge universe: all 64 subsets at the quick tier's sequence lengths (the deep levels are universe 0's)
			l, b, dbL, dbB = 3, 2, 3, 2
		}
		for mask := 0; mask < 64; mask++ {
			if popcnt(mask) > umax {
				continue
			}
			mask := mask
			tasks = append(tasks, Task{Level: fmt.Sprintf("index-l%d-b%d", l, b), Name: fmt.Sprintf("index universe %d subset %q", u, subsetKeys(mask)), Fn: func(res *TaskResult) {
				c10SetUniverse(u)
				for _, typ := range []int8{1, 2, 3} {
					for _, sh := range shardsIdx {
						for _, rev := range []bool{false, true} {
							stop := false
							enumCalls(l, b, func(calls []itCall) bool {
								r := c10Replay{Level: "index", Mask: mask, Rev: rev, Index: typ, Shards: sh, Calls: calls, U: u}
								progressTick.Add(1)
								d, pruned := c10IndexSafe(r, res)
								if pruned {
									res.count("pruned_backward_seek", 1)
									return true
								}
								if len(calls) > 2 && len(subsetKeys(mask)) >= 2 {
									res.Nontrivial++
								}
								if d != "" {
									r.Calls = append([]itCall{}, calls...)
									res.Violations = append(res.Violations, Violation{Prop: "C10", Clause: "iterator-index", Sig: fmt.Sprintf("iterator-index:type%d", typ), Detail: r.String() + "\n" + d, Replay: mustJSON(r)})
									stop = true
									return false
								}
								return true
							})
							if stop {
								break
							}
						}
					}
				}
				c10FlushStates(res)
				if len(res.Samples) == 0 {
					res.Samples = append(res.Samples, fmt.Sprintf("index level: keys %q x 3 index types x shards %v x 2 directions x all call sequences (first call rewind|seek(t), then %d calls, <=%d deviants)", subsetKeys(mask), shardsIdx, l, b))
				}
			}})
		}
		for mask := 0; mask < 64; mask++ {
			if popcnt(mask) > umax {
				continue
			}
			for _, typ := range []int8{1, 2, 3} {
				mask, typ := mask, typ
				tasks = append(tasks, Task{Level: fmt.Sprintf("db-l%d-b%d", dbL, dbB), Name: fmt.Sprintf("db universe %d subset %q type %d", u, subsetKeys(mask), typ), Fn: func(res *TaskResult) {
					c10SetUniverse(u)
					for _, sh := range []int{1, 16} {
						w, vals, werr := c10World(c10Replay{Mask: mask, Index: typ, Shards: sh, U: u})
						if werr != "" {
							res.Err = werr
							return
						}
						n := 0
						for _, rev := range []bool{false, true} {
							for _, pfx := range c10Prefixes {
								stop := false
								enumCalls(dbL, dbB, func(calls []itCall) bool {
									r := c10Replay{Level: "db", Mask: mask, Rev: rev, Index: typ, Shards: sh, Prefix: pfx, Calls: calls, U: u}
									announce(func() string { return r.String() })
									n++
									if n%2000 == 0 { // the log only grows: rebuild now and then
										w.Destroy()
										if w, vals, werr = c10World(r); werr != "" {
											res.Err = werr
											return false
										}
									}
									d, pruned := c10DB(w, vals, r, res)
									if pruned {
										res.count("pruned_backward_seek", 1)
										return true
									}
									if len(calls) > 2 && len(subsetKeys(mask)) >= 2 {
										res.Nontrivial++
									}
									if d != "" {
										r.Calls = append([]itCall{}, calls...)
										res.Violations = append(res.Violations, Violation{Prop: "C10", Clause: "iterator-db", Sig: fmt.Sprintf("iterator-db:type%d", typ), Detail: r.String() + "\n" + d, Replay: mustJSON(r)})
										stop = true
										return false
									}
									return !w.Dead
								})
								if stop || w.Dead || res.Err != "" {
									w.Destroy()
									c10FlushStates(res)
									return
								}
							}
						}
						w.Destroy()
					}
					c10FlushStates(res)
					if len(res.Samples) == 0 {
						res.Samples = append(res.Samples, fmt.Sprintf("db level: keys %q, index type %d x shards {1,16} x 2 directions x prefixes %q x all call sequences (%d calls, <=%d deviants) + ListKeys + Fold", subsetKeys(mask), typ, c10Prefixes, dbL, dbB))
					}
				}})
			}
		}
	}
	c10SetUniverse(0)
	return append(tasks, c10ConcurrentTasks(tier)...)
}

// ---- snapshots taken while a writer runs (controlled scheduler) -----------------------------------------
// ListKeys / Fold / an iterator scan race one Put of a new key, one overwrite or one Delete: whatever the
// interleaving, the enumeration must be sorted, without nil keys and without duplicates, and must contain every
// key that the concurrent writer does not touch ("complete, stable snapshot").

func c10ConcurrentTasks(tier string) []Task {
	pb := 2
	if tier == "thorough" {
		pb = 4
	}
	init := []Op{{K: "put", Key: "a", VC: "S"}, {K: "put", Key: "b", VC: "S"}}
	var tasks []Task
	for _, ix := range []int8{1, 2, 3} {
		for _, sh := range []int{1, 16} {
			for _, reader := range []string{"listkeys", "fold", "iter"} {
				for _, writer := range []Call{{K: "put", Key: "c"}, {K: "put", Key: "a"}, {K: "del", Key: "a"}, {K: "del", Key: "b"}} {
					cfg := defaultCfg
					cfg.Index, cfg.Shards, cfg.FileSize = ix, sh, 1<<20
					sc := Scenario{Cfg: cfg, Init: init, Threads: [][]Call{{{K: reader}}, {writer}}}
					tasks = append(tasks, Task{Level: fmt.Sprintf("concurrent-snapshot-pb%d", pb), Name: "concurrent " + sc.String(), Fn: func(res *TaskResult) {
						outcomes := map[string]bool{}
						n, complete := exploreSchedules(func(prefix []int8) *ExecResult {
							announce(func() string { return fmt.Sprintf("%s schedule %v", sc, prefix) })
							return runScenario(sc, prefix, false)
						}, pb, 100000, func(ex *ExecResult, prefix []int8) bool {
							res.Execs++
							if ex.OpenErr != "" || ex.Sched == nil {
								return true
							}
							res.Transitions += ex.Sched.Points
							res.Evals++
							bad := ""
							for i, p := range ex.Sched.Panics {
								if p != "" {
									bad = fmt.Sprintf("thread %d panicked: %s", i, firstLine(p))
								}
							}
							for _, c := range ex.Calls {
								if c.Call.K != reader || bad != "" {
									continue
								}
								if c.NilKey {
									bad = "the enumeration contains a nil key"
									break
								}
								var ks []string
								for _, kvp := range strings.Split(c.Extra, ",") {
									if kvp != "" {
										ks = append(ks, strings.SplitN(kvp, "=", 2)[0])
									}
								}
								outcomes[strings.Join(ks, ",")] = true
								for i := 1; i < len(ks); i++ {
									if ks[i-1] >= ks[i] {
										bad = fmt.Sprintf("the enumeration %q is not strictly ascending", ks)
									}
								}
								for _, k := range []string{"a", "b"} {
									if k != writer.Key && !strings.Contains(","+strings.Join(ks, ",")+",", ","+k+",") {
										bad = fmt.Sprintf("key %q, which the concurrent writer does not touch, is missing from %q", k, ks)
									}
								}
							}
							if bad != "" {
								res.Violations = append(res.Violations, Violation{Prop: "C10", Clause: "concurrent-snapshot", Sig: "concurrent-snapshot:" + reader,
									Detail: fmt.Sprintf("scenario %s\nschedule: %s\n%s", sc, describeSchedule(ex), bad),
									Replay: mustJSON(schedReplay{Engine: "sched", Prop: "C10", Scenario: sc, Schedule: append([]int8{}, ex.Sched.Choices...), Text: sc.String()})})
								return false
							}
							return true
						})
						if !complete {
							res.Partial = true
						}
						for o := range outcomes {
							res.States = append(res.States, hash64(sc.String(), o))
						}
						if len(outcomes) > 1 {
							res.Nontrivial++
						}
						res.count("max:schedules_per_scenario", int64(n))
					}})
				}
			}
		}
	}
	return tasks
}

func c10IndexSafe(r c10Replay, res *TaskResult) (d string, pruned bool) {
	defer func() {
		if rec := recover(); rec != nil {
			d = fmt.Sprintf("panic: %v @ %s", rec, trimStack(stack()))
		}
	}()
	return c10Index(r, res)
}

func init() {
	register(&Check{
		Prop:   "C10",
		Engine: "seq",
		Rule:   "every subset of the 6-key universe (prefix chains and neighbours) x direction x index type x shard count x [prefix] x every call sequence (first call Rewind or Seek(t); then Next | Rewind | Seek(t) | one interleaved write) within the deviation bound; sequences containing a Seek to an already passed target are pruned (not specified). (Valid, Key, Value) compared with a sorted-slice cursor model after every call. plus, under the controlled scheduler, ListKeys / Fold / an iterator scan racing one Put / overwrite / Delete (all schedules up to the preemption bound): sorted, no nil key, no duplicate, every untouched key present. non-trivial = at least 2 keys and at least 2 calls after the first",
		Assumptions: []string{
			"a fresh iterator is first positioned by Rewind or Seek (use before that is not specified by the statement)",
			"Value at index level is the position recorded at creation; at DB level the stored bytes at creation",
		},
		Tasks: c10Tasks,
		Bounds: func(tier string) map[string]any {
			if tier == "quick" {
				return map[string]any{"subsets": "<=4 of 6 keys", "index_level": "l=3 b=2, shards 1/2/4/16", "db_level": "l=3 b=2, shards 1/16, 5 prefixes", "seek_targets": len(c10Targets)}
			}
			return map[string]any{"subsets": "all 64", "index_level": "l=4 b=3, shards 1/2/4/16", "db_level": "l=4 b=2, shards 1/16, 5 prefixes", "seek_targets": len(c10Targets)}
		},
		Replay: func(raw json.RawMessage) {
			var r c10Replay
			json.Unmarshal(raw, &r)
			c10SetUniverse(r.U)
			var res TaskResult
			var d string
			if r.Level == "index" {
				d, _ = c10IndexSafe(r, &res)
			} else {
				w, vals, werr := c10World(r)
				if werr != "" {
					fmt.Println(werr)
					os.Exit(2)
				}
				d, _ = c10DB(w, vals, r, &res)
				w.Destroy()
			}
			fmt.Println(r.String())
			if d != "" {
				fmt.Println("VIOLATION", d)
				os.Exit(1)
			}
			fmt.Println("no violation on this tree")
		},
	})
}

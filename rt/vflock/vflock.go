// Package vflock replaces github.com/gofrs/flock in the code under test.
package vflock

import (
	"github.com/gofrs/flock"

	"github.com/XiXi-2024/xixi-kv/verifrt/iorec"
)

type Option = flock.Option

func SetFlag(flag int) Option { return flock.SetFlag(flag) }

type Flock struct {
	*flock.Flock
}

func New(path string, opts ...Option) *Flock { return &Flock{flock.New(path, opts...)} }

func NewFlock(path string) *Flock { return New(path) }

func (f *Flock) TryLock() (ok bool, err error) {
	err = iorec.Do("flock", f.Path(), "", 0, 0, func() error {
		var e error
		ok, e = f.Flock.TryLock()
		return e
	})
	return
}

func (f *Flock) Lock() error {
	return iorec.Do("flock", f.Path(), "", 0, 1, func() error { return f.Flock.Lock() })
}

func (f *Flock) Unlock() error {
	return iorec.Do("funlock", f.Path(), "", 0, 0, func() error { return f.Flock.Unlock() })
}

func (f *Flock) Close() error {
	return iorec.Do("funlock", f.Path(), "", 0, 1, func() error { return f.Flock.Close() })
}

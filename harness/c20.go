package main

import (
	"encoding/json"
	"fmt"
	"os"
	"path/filepath"

	"github.com/XiXi-2024/xixi-kv/verifrt/sched"
)

// C20 — a backup taken at any time opens to the state at the time of the backup.

func c20Alphabet(c Cfg) []Op {
	a := []Op{
		{K: "put", Key: "a", VC: "S"},
		{K: "put", Key: "b", VC: "S"},
		{K: "del", Key: "a"},
		{K: "backup"},
		{K: "put", Key: "a", VC: "L", Dev: true},
		{K: "put", Key: "b", VC: "L", Dev: true},
		{K: "put", Key: "b", VC: "M", Dev: true},
		{K: "put", Key: "a", VC: "Z", Dev: true},
		{K: "restartslash", Arg: 1, Dev: true}, // the source directory spelled with a trailing separator
		{K: "restartslash", Arg: 3, Dev: true}, // ... with a "/./" in the middle
		{K: "restartslash", Arg: 4, Dev: true}, // ... through a symbolic link
		{K: "merge", Dev: true},
		{K: "restart", Dev: true},
		{K: "batch", Sub: []Op{{K: "put", Key: "a", VC: "S"}, {K: "put", Key: "b", VC: "S"}}, Dev: true},
		{K: "batch", Sub: []Op{{K: "put", Key: "a", VC: "L"}, {K: "del", Key: "b"}, {K: "put", Key: "b", VC: "L"}}, Dev: true},
	}
	return a
}

// doBackup runs Backup on the open source and verifies the copy. Returns a violation or nil.
func doBackup(w *World, n int, res *TaskResult) *Violation {
	dst := filepath.Join(w.Root, fmt.Sprintf("backup%d", n))
	if c20ReuseDir {
		dst = filepath.Join(w.Root, "backup-reused") // the periodic backup: always into the same directory
		os.RemoveAll(dst + "-root")
	}
	before := w.DumpDB()
	if before.Err != "" || !sameMap(before.KV, w.Model) {
		return nil // C01's business
	}
	err := w.guard(func() error { return w.DB.Backup(dst) })
	if err != nil {
		return viol("C20", "backup-error", "backup-error:"+firstWord(errClass(err)), "Backup returned "+panicDetail(err))
	}
	if _, err := os.Stat(filepath.Join(dst, ".lock")); err == nil && !(c20ReuseDir && n > 1) { // (a reused destination holds the lock file of the copy's own earlier Open)
		return viol("C20", "lock-copied", "lock-copied", "the backup directory contains the source's .lock file")
	}
	// the copy opens as an independent database while the source is still open
	cp := &World{Cfg: w.Cfg, Root: dst + "-root", Dir: dst, Model: map[string]string{}, Keys: w.Keys, Cnt: map[string]int64{}, Hist: map[string]map[string]bool{}}
	defer func() {
		if cp.DB != nil && !cp.Dead {
			cp.Close()
		}
	}()
	if err := cp.Open(); err != nil {
		return viol("C20", "copy-open", "copy-open:"+errClass(err), "opening the backup while the source is open: "+panicDetail(err))
	}
	after := cp.DumpDB()
	res.Evals++
	if !dumpEqual(before, after) {
		return viol("C20", "copy-differs", "copy-differs", fmt.Sprintf("source at Backup time: %s\n backup opened:        %s", before, after))
	}
	// the copy is independent: a write to it does not show in the source
	if !c20ReuseDir { // (a destination that is backed up into again is only ever read)
		cp.guard(func() error { return cp.DB.Put([]byte("a"), []byte("copy-only")) })
	}
	if err := cp.Close(); err != nil {
		return viol("C20", "copy-close", "copy-close", "closing the backup: "+panicDetail(err))
	}
	// the source is unaffected
	if c, d := w.CheckReads(); c != "" {
		return viol("C20", "source-affected:"+c, "source-affected:"+c, "source after Backup: "+d)
	}
	return nil
}

// c20ReuseDir: every Backup of a sequence goes into the same destination directory
var c20ReuseDir bool

func runC20Reuse(cfg Cfg, keys []string, ops []Op, res *TaskResult) *Violation {
	c20ReuseDir = true
	defer func() { c20ReuseDir = false }()
	// ... then a merge, the restart that adopts it (the source's file set shrinks) and one more backup
	full := append(append([]Op{}, ops...), Op{K: "merge"}, Op{K: "restart"}, Op{K: "backup"})
	return runC20(cfg, keys, full, res)
}

func runC20(cfg Cfg, keys []string, ops []Op, res *TaskResult) *Violation {
	backups := 0
	for _, o := range ops {
		if o.K == "backup" {
			backups++
		}
	}
	if backups == 0 || backups > 2 {
		return nil // enumerated by the generic enumerator; only sequences with 1..2 backups are C20's
	}
	// after the last backup: at least one further write incl. a multi-block put, then a restart
	full := append(append([]Op{}, ops...), Op{K: "put", Key: "b", VC: "M"}, Op{K: "put", Key: "a", VC: "S"}, Op{K: "restart"})
	n := 0
	hadRot, rotAtBackup := false, false
	v := RunTrace(cfg, keys, full, res, func(w *World, i int, op Op, ar ApplyResult) *Violation {
		if errClass(ar.Err) == "panic" {
			if n > 0 {
				return viol("C20", "source-panic-after-backup", "source-panic-after-backup:"+op.K, fmt.Sprintf("step %d %s after a Backup: %s", i, op, panicDetail(ar.Err)))
			}
			return nil
		}
		if ar.Clause != "" {
			if n > 0 {
				return viol("C20", "source-"+ar.Clause, "source-"+ar.Clause, fmt.Sprintf("step %d %s after a Backup: %s", i, op, ar.Detail))
			}
			return nil
		}
		if n > 0 {
			res.Evals++
			if c, d := w.CheckReads(); c != "" {
				return viol("C20", "source-affected:"+c, "source-affected:"+c, fmt.Sprintf("step %d %s after a Backup: %s\nmodel=%s", i, op, d, modelString(w.Model)))
			}
		}
		if i == len(full)-1 {
			res.States = append(res.States, w.StateHash())
			_, _, older := w.DB.VerifFiles()
			hadRot = len(older) > 0
		}
		return nil
	}, func(w *World, i int, op Op) (*Violation, bool) {
		if op.K != "backup" {
			return nil, false
		}
		n++
		if _, _, older := w.DB.VerifFiles(); len(older) > 0 {
			rotAtBackup = true
		}
		v := doBackup(w, n, res)
		if v != nil {
			v.Detail = fmt.Sprintf("step %d backup #%d: %s", i, n, v.Detail)
		}
		return v, true
	})
	if hadRot && rotAtBackup {
		res.Nontrivial++
	}
	return v
}

func c20Cfgs(tier string) []Cfg {
	mm := defaultCfg
	mm.IO = 1
	c200 := defaultCfg
	c200.FileSize = 200 // a two-put batch fits: it is written (and may rotate the file) inside Commit, not while staging
	out := []Cfg{defaultCfg, mm, c200}
	if tier == "thorough" {
		for _, ix := range []int8{1, 2} {
			c := defaultCfg
			c.Index = ix
			out = append(out, c)
			c.IO = 1
			out = append(out, c)
		}
	}
	return out
}

func init() {
	register(&Check{
		Prop:   "C20",
		Engine: "seq",
		Rule:   "operation sequences with Backup at every position (1..2 backups per sequence), under both I/O back-ends; each Backup is verified (returns nil, no .lock, copy opens while the source is open, dump equal to the source's dump at the call, copy writable independently); then the source's own reference-map oracle through further writes incl. a 3-block Put and a restart; plus, under the controlled scheduler, Backup racing one Put / Delete / batch / Merge / Sync (ALL schedules, both back-ends): the copy opens to the mapping before or after that call, the source keeps working. non-trivial = the source had rotated files when a Backup was taken",
		Assumptions: []string{
			"SIGBUS/SIGSEGV on a mapping is turned into a recoverable panic (debug.SetPanicOnFault) and reported as a violation",
		},
		Tasks: func(tier string) []Task {
			d, b := 4, 2
			if tier == "thorough" {
				d, b = 5, 2
			}
			reuseAlpha := func(c Cfg) []Op {
				return []Op{{K: "put", Key: "a", VC: "L"}, {K: "put", Key: "b", VC: "L"}, {K: "del", Key: "a"}, {K: "del", Key: "b"}, {K: "backup"}}
			}
			return append(seqTasks("C20", []seqLevel{{Name: fmt.Sprintf("d%db%d", d, b), Cfgs: c20Cfgs(tier), Keys: keysAB, Alpha: c20Alphabet, Depth: d, Dev: b, Run: runC20},
				{Name: "reused-destination-d5", Cfgs: []Cfg{defaultCfg}, Keys: keysAB, Alpha: reuseAlpha, Depth: 5, Dev: 5, Run: runC20Reuse}}), c20RaceTasks(tier)...)
		},
		Bounds: func(tier string) map[string]any {
			d, b := 4, 2
			if tier == "thorough" {
				d, b = 5, 2
			}
			return map[string]any{"depth": d, "deviation_bound": b, "configs": len(c20Cfgs(tier)), "sequences_per_config_before_filter": countSeq(c20Alphabet(defaultCfg), d, b)}
		},
		Replay: func(raw json.RawMessage) {
			var e struct {
				Engine string `json:"engine"`
			}
			json.Unmarshal(raw, &e)
			if e.Engine == "sched-backup" {
				replayBackupRace(raw)
				return
			}
			seqReplayMain(raw, runC20)
		},
	})
}

// ---- Backup racing a writer or a Merge (all schedules) -----------------------------------------------------------
// "the mapping the source had when Backup was called": with a call in flight next to it, the copy holds the mapping
// before that call or after it, whole; both calls succeed; the source ends with the mapping after it.

type backupRaceReplay struct {
	Engine   string `json:"engine"`
	Prop     string `json:"property"`
	Cfg      Cfg    `json:"cfg"`
	Init     []Op   `json:"init"`
	Other    Op     `json:"other"`
	Schedule []int8 `json:"schedule"`
	Text     string `json:"text"`
}

func runBackupRace(cfg Cfg, init []Op, other Op, prefix []int8, res *TaskResult) (ex *ExecResult, bad string) {
	beginExecution()
	w := NewWorld(cfg, keysAB)
	defer w.Destroy()
	ex = &ExecResult{}
	if err := w.Open(); err != nil {
		ex.OpenErr = panicDetail(err)
		return
	}
	for _, op := range init {
		if ar := w.Apply(op); ar.Err != nil || w.Dead {
			ex.OpenErr = "init failed"
			return
		}
	}
	pre := copyModel(w.Model)
	db := w.DB
	dst := filepath.Join(w.Root, "backup")
	var berr error
	var oar ApplyResult
	ex.Sched = sched.Run(prefix, func() { berr = w.guard(func() error { return db.Backup(dst) }) }, func() { oar = w.Apply(other) })
	sched.SetMode(sched.ModeSeq)
	if ex.Sched.Abort != sched.AbortNone {
		w.Dead = true
		return
	}
	for i, p := range ex.Sched.Panics {
		if p != "" {
			w.Dead = true
			return ex, fmt.Sprintf("thread %d panicked: %s", i, firstLine(p))
		}
	}
	post := copyModel(w.Model)
	if berr != nil {
		return ex, "Backup returned " + panicDetail(berr)
	}
	if oar.Err != nil && !(other.K == "merge" && errClass(oar.Err) == "ErrMergeIsProgress") {
		return ex, fmt.Sprintf("%s next to a Backup returned %s", other, panicDetail(oar.Err))
	}
	if w.Dead {
		return ex, "the source panicked"
	}
	if c, d := w.CheckReads(); c != "" {
		return ex, "source after Backup || " + other.String() + ": " + d
	}
	if _, err := os.Stat(filepath.Join(dst, ".lock")); err == nil {
		return ex, "the backup directory contains the source's .lock file"
	}
	cp := &World{Cfg: cfg, Root: dst + "-root", Dir: dst, Model: map[string]string{}, Keys: keysAB, Cnt: map[string]int64{}, Hist: map[string]map[string]bool{}}
	if err := cp.Open(); err != nil {
		return ex, "opening the backup while the source is open: " + panicDetail(err)
	}
	d := cp.DumpDB()
	res.Evals++
	cp.Close()
	if !raceAdmissible(d, pre, post, true) {
		return ex, fmt.Sprintf("the backup opens to %s; the source held %s before %s and %s after it", d, modelString(pre), other, modelString(post))
	}
	ex.Calls = []CallRec{{Thread: 0, Call: Call{K: "backup"}, Extra: fmt.Sprint(sameMap(d.KV, post))}}
	// the source stays usable: a further write and a restart
	for _, op := range []Op{{K: "put", Key: "a", VC: "S"}, {K: "restart"}} {
		if ar := w.Apply(op); ar.Err != nil || ar.Clause != "" || w.Dead {
			return ex, fmt.Sprintf("source after Backup || %s: %s failed: %s %s", other, op, errClass(ar.Err), ar.Detail)
		}
		if c, d := w.CheckReads(); c != "" {
			return ex, fmt.Sprintf("source after Backup || %s, after %s: %s", other, op, d)
		}
	}
	return ex, ""
}

var c20RaceOthers = []Op{
	{K: "put", Key: "a", VC: "S"},
	{K: "put", Key: "b", VC: "X"}, // rotates
	{K: "del", Key: "a"},
	{K: "batch", Sub: []Op{{K: "put", Key: "a", VC: "L"}, {K: "put", Key: "b", VC: "L"}, {K: "put", Key: "a", VC: "S"}}},
	{K: "merge", Arg: 1},
	{K: "sync"},
}

func c20RaceTask(cfg Cfg, initName string, init []Op, other Op, pb int) func(res *TaskResult) {
	return func(res *TaskResult) {
		text := fmt.Sprintf("%s init=%s[%s] T0[backup] || T1[%s]", cfg, initName, traceString(init), other)
		outcomes := map[string]bool{}
		n, complete := exploreSchedules(func(prefix []int8) *ExecResult {
			ex, bad := runBackupRace(cfg, init, other, prefix, res)
			if bad != "" && ex.Sched != nil {
				v := Violation{Prop: "C20", Clause: "backup-race", Sig: "backup-race:" + other.K,
					Detail: fmt.Sprintf("%s\nschedule: %s\n%s", text, describeSchedule(ex), bad),
					Replay: mustJSON(backupRaceReplay{Engine: "sched-backup", Prop: "C20", Cfg: cfg, Init: init, Other: other, Schedule: append([]int8{}, ex.Sched.Choices...), Text: text})}
				addViolation(res, &v)
				ex.OpenErr = "violation"
			}
			return ex
		}, pb, 200000, func(ex *ExecResult, prefix []int8) bool {
			res.Execs++
			if ex.Sched == nil {
				return true
			}
			res.Transitions += ex.Sched.Points
			if ex.Sched.Abort == sched.AbortDiv {
				res.Err = "replay divergence in Backup || " + other.String()
				return false
			}
			if ex.Sched.Abort != sched.AbortNone {
				v := Violation{Prop: "C20", Clause: "backup-race", Sig: "backup-race-deadlock:" + other.K, Detail: text + "\nschedule: " + describeSchedule(ex) + "\ndeadlock / livelock",
					Replay: mustJSON(backupRaceReplay{Engine: "sched-backup", Prop: "C20", Cfg: cfg, Init: init, Other: other, Schedule: append([]int8{}, ex.Sched.Choices...), Text: text})}
				addViolation(res, &v)
				return false
			}
			if len(ex.Calls) > 0 {
				outcomes[ex.Calls[0].Extra] = true
			}
			return ex.OpenErr != "violation"
		})
		if !complete {
			res.Partial = true
		}
		for o := range outcomes {
			res.States = append(res.States, hash64(text, o))
		}
		if len(outcomes) > 1 {
			res.Nontrivial++ // both "copy holds the earlier mapping" and "copy holds the later one" were seen
		}
		res.count("max:schedules_per_scenario", int64(n))
		res.Samples = append(res.Samples, fmt.Sprintf("%s: %d schedules, copy-equals-later-mapping outcomes %v", text, n, sortedKeys(outcomes)))
	}
}

func c20RaceTasks(tier string) []Task {
	var tasks []Task
	mm := defaultCfg
	mm.IO = 1
	for _, c := range []Cfg{defaultCfg, mm} {
		for _, name := range sortedKeys(c08MergeInits) {
			for _, o := range c20RaceOthers {
				tasks = append(tasks, Task{Level: "backup-race", Name: fmt.Sprintf("backup race %s %s %s", c, name, o), Fn: c20RaceTask(c, name, c08MergeInits[name], o, -1)})
			}
		}
	}
	return tasks
}

func replayBackupRace(raw json.RawMessage) {
	var r backupRaceReplay
	json.Unmarshal(raw, &r)
	var res TaskResult
	_, bad := runBackupRace(r.Cfg, r.Init, r.Other, r.Schedule, &res)
	if bad != "" {
		fmt.Printf("VIOLATION clause=backup-race\n%s\n%s\n", r.Text, bad)
		os.Exit(1)
	}
	fmt.Println("no violation on this tree")
}
